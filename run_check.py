#!/usr/bin/env python3
"""Entry point: run_check.py <property id> [--tier quick|thorough]
exit 0 = property held on everything explored (known findings are printed, not alarms),
exit 1 = violation (a `VIOLATION property=<id> replay=<path>` line is printed),
exit 2 = machinery error (never a verdict)."""
import argparse
import importlib
import os
import sys
import traceback

HERE = os.path.dirname(os.path.abspath(__file__))
sys.path.insert(0, os.path.join(HERE, "lib"))
sys.path.insert(0, os.path.join(HERE, "props"))

from common import Check, MachineryError  # noqa: E402


def main():
    ap = argparse.ArgumentParser()
    ap.add_argument("prop")
    ap.add_argument("--tier", default=os.environ.get("VERIF_TIER", "quick"), choices=["quick", "thorough"])
    ap.add_argument("--replay", default=None)
    a = ap.parse_args()
    prop = a.prop.upper()
    mod = importlib.import_module(prop.lower())
    if a.replay:
        if hasattr(mod, "replay"):
            return mod.replay(a.replay)
        import replay
        return replay.replay(a.replay)
    chk = Check(prop, a.tier)
    try:
        mod.run(chk, a.tier)
    except MachineryError as e:
        print("MACHINERY ERROR (%s): %s" % (prop, e))
        return 2
    except Exception:
        traceback.print_exc()
        print("MACHINERY ERROR (%s): unexpected exception" % prop)
        return 2
    return chk.finish()


if __name__ == "__main__":
    sys.exit(main())
