"""Seam B: rustc with the real proc-macro.  Cases are modules batched into bins of a generated
crate depending on derive_more by path; diagnostics are attributed to cases by line, with a masking
fixpoint (cases with diagnostics are removed and the bin rebuilt until it is clean)."""
import json
import os
import re
import shutil
import subprocess
import time

from common import MachineryError, NCPU, REPO, TARGET, WORK, base_env, run

RUNTIME = r'''
#[allow(dead_code)]
pub struct R { pub fails: Vec<String>, pub n: u64 }
#[allow(dead_code)]
impl R {
    pub fn check(&mut self, label: &str, ok: bool) { self.n += 1; if !ok && self.fails.len() < 4 { self.fails.push(label.to_string()); } else if !ok { self.fails.push(String::new()); } }
    pub fn eq<A: ::core::fmt::Debug + PartialEq<B>, B: ::core::fmt::Debug>(&mut self, label: &str, a: A, b: B) {
        self.n += 1;
        if !(a == b) { if self.fails.len() < 4 { self.fails.push(format!("{}: got {:?} want {:?}", label, a, b)); } else { self.fails.push(String::new()); } }
    }
    pub fn obs(&mut self, s: String) { self.fails.push(format!("OBS {}", s)); }
}
#[allow(dead_code)]
fn __run_case(id: &str, f: fn(&mut R)) {
    let res = ::std::panic::catch_unwind(|| { let mut r = R { fails: Vec::new(), n: 0 }; f(&mut r); r });
    match res {
        Ok(r) => {
            let obs: Vec<&String> = r.fails.iter().filter(|s| s.starts_with("OBS ")).collect();
            let fails: Vec<&String> = r.fails.iter().filter(|s| !s.starts_with("OBS ")).collect();
            for o in &obs { println!("CASEOBS {} {}", id, &o[4..].replace('\n', "\\n")); }
            if fails.is_empty() { println!("CASE {} ok {}", id, r.n); }
            else { println!("CASE {} FAIL {} {} :: {}", id, r.n, fails.len(), fails.iter().filter(|s| !s.is_empty()).map(|s| s.replace('\n', "\\n")).collect::<Vec<_>>().join(" || ")); }
        }
        Err(e) => {
            let msg = if let Some(s) = e.downcast_ref::<&str>() { s.to_string() } else if let Some(s) = e.downcast_ref::<String>() { s.clone() } else { "?".to_string() };
            println!("CASE {} PANIC {}", id, msg.replace('\n', "\\n"));
        }
    }
}
'''


class Case:
    __slots__ = ("cid", "module", "expect", "meta", "has_run", "must_match")

    def __init__(self, cid, module, expect="ok", meta=None, has_run=True, must_match=None):
        """module: full text of the body of `pub mod <cid> { ... }`; if has_run it defines
        `pub fn run(r: &mut super::R)`.  expect: 'ok' (no diagnostics) or 'fail' (must not compile,
        with an error attributed to this case)."""
        self.cid = cid
        self.module = module
        self.expect = expect
        self.meta = meta
        self.has_run = has_run
        self.must_match = must_match


class Result:
    __slots__ = ("compile", "diags", "run", "detail", "ncmp", "obs")

    def __init__(self):
        self.compile = None   # 'ok' | 'error' | 'warning'
        self.diags = []
        self.run = None       # 'ok' | 'fail' | 'panic' | None
        self.detail = ""
        self.ncmp = 0
        self.obs = []


class CompileEngine:
    def __init__(self, prop, header="#![allow(unused, dead_code, unused_imports, unused_variables, unused_mut, unused_parens, non_snake_case, non_camel_case_types, non_upper_case_globals, unreachable_patterns, unreachable_code, clippy::all)]\n",
                 prelude="", toolchain=None, features=("full",), default_features=True, mode="build",
                 per_bin=250, crate_attrs="", keep=False, extra_deps=""):
        self.prop = prop
        self.header = header
        self.prelude = prelude
        self.toolchain = toolchain
        self.mode = mode
        self.per_bin = per_bin
        self.keep = keep
        self.dir = os.path.join(WORK, prop.lower() + ("-" + toolchain if toolchain else ""))
        self.target = os.path.join(TARGET, "compile-" + (toolchain or "stable"))
        self.features = features
        self.default_features = default_features
        self.extra_deps = extra_deps
        self.rounds = 0
        self.bins_built = 0
        self.crate_attrs = crate_attrs
        self.build_s = 0.0

    # ------------------------------------------------------------------------------------------
    def _write_crate(self):
        if os.path.exists(self.dir):
            shutil.rmtree(self.dir)
        os.makedirs(os.path.join(self.dir, "src", "bin"))
        feats = ", ".join('"%s"' % f for f in self.features)
        with open(os.path.join(self.dir, "Cargo.toml"), "w") as f:
            f.write('[package]\nname = "cases_%s"\nversion = "0.0.0"\nedition = "2021"\npublish = false\n\n[workspace]\n\n'
                    '[dependencies]\nderive_more = { path = "%s", default-features = %s, features = [%s] }\n%s\n'
                    '[profile.dev]\ndebug = false\nincremental = false\nopt-level = 0\npanic = "unwind"\n'
                    % (self.prop.lower(), REPO, "true" if self.default_features else "false", feats, self.extra_deps))
        lock = os.path.join(REPO, "Cargo.lock")
        if os.path.exists(lock):
            shutil.copy(lock, os.path.join(self.dir, "Cargo.lock"))
        with open(os.path.join(self.dir, "src", "lib.rs"), "w") as f:
            f.write("")

    def _bin_name(self, i):
        return "%s_b%d" % (self.prop.lower(), i)

    def _write_bin(self, i, cases):
        """Returns list of (first_line, last_line, case)."""
        lines = []
        text = self.header + self.crate_attrs + RUNTIME + self.prelude + "\n"
        cur = text.count("\n") + 1
        spans = []
        parts = [text]
        for c in cases:
            body = "pub mod %s {\n%s\n}\n" % (c.cid, c.module)
            n = body.count("\n")
            spans.append((cur, cur + n - 1, c))
            cur += n
            parts.append(body)
        main = ["fn main() {", "    ::std::panic::set_hook(Box::new(|_| {}));"]
        for c in cases:
            if c.has_run and c.expect == "ok":
                main.append('    __run_case("%s", %s::run);' % (c.cid, c.cid))
        main.append("}")
        parts.append("\n".join(main) + "\n")
        path = os.path.join(self.dir, "src", "bin", self._bin_name(i) + ".rs")
        with open(path, "w") as f:
            f.write("".join(parts))
        if os.environ.get("VERIF_COVERAGE") or os.environ.get("VERIF_KEEP_PROGRAMS"):   # diagnostic modes: keep a copy of every generated program for `inproc cover`
            d = os.environ.get("VERIF_KEEP_PROGRAMS") or os.path.join(os.environ["VERIF_COVERAGE"], "programs")
            os.makedirs(d, exist_ok=True)
            shutil.copy(path, os.path.join(d, "%s_%s_%d.rs" % (self.prop.lower(), self.toolchain or "stable", len(os.listdir(d)))))
        return spans

    def _cargo(self, bins):
        env = base_env()
        env["CARGO_TARGET_DIR"] = self.target
        cmd = ["cargo"] + (["+" + self.toolchain] if self.toolchain else [])
        cmd += ["check" if self.mode == "check" else "build", "--offline", "--message-format=json", "--keep-going",
                "-j", str(NCPU)]
        for b in bins:
            cmd += ["--bin", b]
        t0 = time.time()
        p = run(cmd, cwd=self.dir, env=env, timeout=3600)
        self.build_s += time.time() - t0
        return p

    # ------------------------------------------------------------------------------------------
    def run_cases(self, cases, max_rounds=12):
        """Builds and runs all cases.  Returns dict cid -> Result."""
        cases = list(cases) + [
            Case("canary_ok__", "pub fn run(r: &mut super::R) { r.check(\"canary\", true); }"),
            Case("canary_fail__", "#[derive(derive_more::Display)] pub struct X(u8, u8);", expect="fail", has_run=False),
        ]
        results = {c.cid: Result() for c in cases}
        if len(results) != len(cases):
            raise MachineryError("duplicate case ids")
        self._write_crate()
        # expected-fail cases go to their own bins so they cannot mask expected-ok ones
        groups = []
        for exp in ("ok", "fail"):
            sel = [c for c in cases if c.expect == exp]
            for k in range(0, len(sel), self.per_bin):
                groups.append(sel[k:k + self.per_bin])
        live = {i: list(g) for i, g in enumerate(groups)}
        spans = {}
        dirty = set(live)
        for rnd in range(max_rounds):
            self.rounds += 1
            for i in dirty:
                spans[i] = self._write_bin(i, live[i])
            self.bins_built += len(dirty)
            p = self._cargo([self._bin_name(i) for i in sorted(dirty)])
            by_bin = {}
            unattributed = []
            derive_more_failed = False
            built = set()
            for line in p.stdout.splitlines():
                if not line.startswith("{"):
                    continue
                try:
                    m = json.loads(line)
                except ValueError:
                    continue
                if m.get("reason") == "compiler-artifact":
                    built.add(m.get("target", {}).get("name"))
                    continue
                if m.get("reason") != "compiler-message":
                    continue
                tgt = m.get("target", {})
                msg = m["message"]
                level = msg.get("level")
                if level not in ("error", "warning"):
                    continue
                if not tgt.get("name", "").startswith(self.prop.lower() + "_b"):
                    if level == "error":
                        derive_more_failed = True
                        unattributed.append(msg.get("rendered", "")[:2000])
                    continue
                text = msg.get("message", "")
                if text.startswith("aborting due to") or re.match(r"\d+ warnings? emitted", text) or "could not compile" in text:
                    continue
                bname = tgt.get("name")
                line_no = None
                for sp in msg.get("spans", []):
                    s = sp
                    # walk out of macro expansions to the call site in our file
                    while s is not None and not s["file_name"].endswith(bname + ".rs"):
                        s = (s.get("expansion") or {}).get("span")
                    if s is not None and (sp.get("is_primary") or line_no is None):
                        line_no = s["line_start"]
                        if sp.get("is_primary"):
                            break
                by_bin.setdefault(bname, []).append((level, line_no, text, msg.get("rendered", "")))
            if derive_more_failed:
                raise MachineryError("derive_more itself failed to build:\n" + "\n".join(unattributed)[:6000])
            newly_dirty = set()
            for i in sorted(dirty):
                bname = self._bin_name(i)
                hit = {}
                for level, line_no, text, rendered in by_bin.get(bname, []):
                    case = None
                    if line_no is not None:
                        for (a, b, c) in spans[i]:
                            if a <= line_no <= b:
                                case = c
                                break
                    if case is None:
                        raise MachineryError("diagnostic not attributable to a case in %s (line %s): %s\n%s" % (
                            bname, line_no, text, rendered[:3000]))
                    hit.setdefault(case.cid, []).append((level, text, rendered))
                for cid, ds in hit.items():
                    r = results[cid]
                    r.diags.extend({"level": l, "message": t, "rendered": rd[:1500]} for l, t, rd in ds)
                    r.compile = "error" if any(l == "error" for l, _, _ in ds) else "warning"
                if hit:
                    live[i] = [c for c in live[i] if c.cid not in hit]
                    if live[i]:
                        newly_dirty.add(i)
            if p.returncode != 0 and not any(by_bin.get(self._bin_name(i)) for i in dirty):
                raise MachineryError("cargo failed without attributable diagnostics:\n" + p.stderr[-6000:])
            for i in dirty:
                bname = self._bin_name(i)
                if bname not in built and not any(l == "error" for l, _, _, _ in by_bin.get(bname, [])):
                    raise MachineryError("bin %s produced neither an artifact nor an error (compiler crash or resource limit?):\n%s" % (bname, p.stderr[-3000:]))
            dirty = newly_dirty
            if not dirty:
                break
        else:
            raise MachineryError("masking fixpoint did not converge in %d rounds" % max_rounds)
        # everything still live compiled cleanly
        for i, cs in live.items():
            for c in cs:
                results[c.cid].compile = "ok"
        # run
        if self.mode != "check":
            for i, cs in live.items():
                runnable = [c for c in cs if c.has_run and c.expect == "ok"]
                if not runnable:
                    continue
                exe = os.path.join(self.target, "debug", self._bin_name(i))
                try:
                    p = subprocess.run([exe], stdout=subprocess.PIPE, stderr=subprocess.PIPE, text=True, timeout=1800)
                except subprocess.TimeoutExpired:
                    raise MachineryError("bin %s timed out" % exe)
                seen = set()
                for line in p.stdout.splitlines():
                    if line.startswith("CASEOBS "):
                        _, cid, rest = line.split(" ", 2)
                        results[cid].obs.append(rest)
                        continue
                    if not line.startswith("CASE "):
                        continue
                    parts = line.split(" ", 3)
                    cid, st = parts[1], parts[2]
                    r = results[cid]
                    seen.add(cid)
                    if st == "ok":
                        r.run = "ok"
                        r.ncmp = int(parts[3])
                    elif st == "FAIL":
                        r.run = "fail"
                        r.detail = parts[3]
                        try:
                            r.ncmp = int(parts[3].split(" ", 1)[0])
                        except ValueError:
                            pass
                    else:
                        r.run = "panic"
                        r.detail = parts[3] if len(parts) > 3 else ""
                missing = [c.cid for c in runnable if c.cid not in seen]
                if missing:
                    raise MachineryError("bin %s (rc=%s) did not report cases %s\n%s" % (
                        exe, p.returncode, missing[:5], p.stderr[-2000:]))
        if (self.mode != "check" and results["canary_ok__"].run != "ok") or results["canary_ok__"].compile != "ok" \
                or results["canary_fail__"].compile != "error":
            raise MachineryError("canaries not observed as planted: ok=%s/%s fail=%s" % (
                results["canary_ok__"].compile, results["canary_ok__"].run, results["canary_fail__"].compile))
        del results["canary_ok__"], results["canary_fail__"]
        if not self.keep:
            shutil.rmtree(self.dir, ignore_errors=True)
        return results
