"""Replays one violation artefact without the explorer: the witness item is expanded once by the real
expanders in-process and, when it is a complete program fragment, compiled once by rustc with the real proc-macro."""
import json
import os
import re
import shutil
import subprocess
import sys

from common import REPO, TARGET, WORK, base_env, svc


def replay(path):
    d = json.load(open(path))
    print("property:  %s\nsignature: %s\ncount:     %s" % (d.get("property"), d.get("signature"), d.get("count")))
    w = d.get("witness")
    wt = w if isinstance(w, str) else json.dumps(w)
    print("witness:   %s\nrecorded:  %s\n" % (wt, str(d.get("detail"))[:2000]))
    # ---- in-process: every `derive(X) on: ITEM` or `#[derive(..X..)] ITEM`
    reqs = []
    m = re.match(r"derive\((\w+)\) on: (.*)$", wt, re.S)
    if m:
        reqs.append({"derive": m.group(1), "item": m.group(2)})
    else:
        dm = re.findall(r"#\[derive\(([^\]]*)\)\]", wt)
        names = [x.strip().split("::")[-1] for grp in dm for x in grp.split(",") if "derive_more" in x or grp == dm[0]]
        item = re.sub(r"#\[derive\([^\]]*\)\]\s*", "", wt)
        item = item.split("   // ")[0]
        for n in names:
            if n and n[0].isupper():
                reqs.append({"derive": n, "item": item})
    rc = 0
    for q, r in zip(reqs, svc(reqs) if reqs else []):
        print("in-process derive(%s): %s %s" % (q["derive"], r["k"], (r.get("msg") or r.get("out", ""))[:600]), r.get("loc", ""))
        if r["k"] == "panic":
            rc = 1
    # ---- rustc: if the witness looks like a self-contained item with its derive attribute, compile it once
    if wt.lstrip().startswith("#[") and "derive_more::" in wt or (reqs and not m):
        crate = os.path.join(WORK, "replay")
        shutil.rmtree(crate, ignore_errors=True)
        os.makedirs(os.path.join(crate, "src"))
        with open(os.path.join(crate, "Cargo.toml"), "w") as f:
            f.write('[package]\nname = "replay"\nversion = "0.0.0"\nedition = "2021"\n[workspace]\n[dependencies]\nderive_more = { path = "%s", features = ["full"] }\n' % REPO)
        shutil.copy(os.path.join(REPO, "Cargo.lock"), os.path.join(crate, "Cargo.lock"))
        text = wt.split("   // ")[0]
        text = re.sub(r"#\[derive\(((?:\w+(?:, )?)+)\)\]", lambda mm: "#[derive(%s)]" % ", ".join(("derive_more::" + x.strip()) if x.strip() not in ("Debug", "Clone", "Copy", "PartialEq") or "Debug" == x.strip() and "debug(" in wt else x.strip() for x in mm.group(1).split(",")), text)
        with open(os.path.join(crate, "src", "main.rs"), "w") as f:
            f.write("#![allow(dead_code, non_camel_case_types)]\n%s\nfn main() {}\n" % text)
        env = base_env()
        env["CARGO_TARGET_DIR"] = os.path.join(TARGET, "compile-stable")
        p = subprocess.run(["cargo", "check", "--offline", "-q"], cwd=crate, env=env, stdout=subprocess.PIPE, stderr=subprocess.PIPE, text=True)
        print("\nrustc on the witness (undefined helper types of the harness show up as unresolved names):\n" + (p.stderr[-2500:] or "  compiles cleanly"))
    print("\nTo re-run the whole check: python3 run_check.py %s --tier quick" % d.get("property"))
    return rc
