"""Shared machinery: paths, engine builds, the in-process expansion service client, evidence,
known findings, violation reporting.  Exit codes: 0 held, 1 violation, 2 machinery error."""
import hashlib
import json
import os
import subprocess
import sys
import time

VERIF = os.path.dirname(os.path.dirname(os.path.abspath(__file__)))
REPO = os.environ.get("VERIF_REPO", "/repo")
TARGET = os.environ.get("VERIF_TARGET", os.path.join(VERIF, "target"))
WORK = os.environ.get("VERIF_WORK", os.path.join(VERIF, "work"))
_OUT = os.environ.get("VERIF_OUT", VERIF)   # scratch runs against a mutated copy write elsewhere
EVIDENCE_DIR = os.path.join(_OUT, "evidence")
REPLAY_DIR = os.path.join(_OUT, "replays")
NCPU = os.cpu_count() or 8


class MachineryError(Exception):
    pass


def base_env():
    env = dict(os.environ)
    env["CARGO_NET_OFFLINE"] = "true"
    env["VERIF_REPO"] = REPO
    env.pop("RUSTFLAGS", None)
    cov = os.environ.get("VERIF_COVERAGE")
    if cov:
        global _NIGHTLY_LIB
        if _NIGHTLY_LIB is None:
            _NIGHTLY_LIB = os.path.join(subprocess.run(["rustc", "+nightly", "--print", "sysroot"], stdout=subprocess.PIPE, text=True, check=True).stdout.strip(), "lib")
        env["LD_LIBRARY_PATH"] = _NIGHTLY_LIB + ":" + env.get("LD_LIBRARY_PATH", "")
        env["LLVM_PROFILE_FILE"] = os.path.join(cov, "raw", "p-%p-%8m.profraw")
    return env


_NIGHTLY_LIB = None


def run(cmd, cwd=None, env=None, timeout=None, input=None, check=False):
    try:
        p = subprocess.run(cmd, cwd=cwd, env=env or base_env(), timeout=timeout, input=input,
                           stdout=subprocess.PIPE, stderr=subprocess.PIPE, text=True)
    except subprocess.TimeoutExpired:
        raise MachineryError("command timed out after %ss: %s" % (timeout, " ".join(cmd)))
    if check and p.returncode != 0:
        raise MachineryError("command failed (%d): %s\n%s\n%s" % (
            p.returncode, " ".join(cmd), p.stdout[-3000:], p.stderr[-6000:]))
    return p


# ----------------------------------------------------------------------------------------------
# inproc engine

_INPROC_BUILT = {}


def inproc_bin(nightly=False):
    """Builds (cargo decides whether anything changed in /repo or the engine) and returns the path."""
    key = "nightly" if nightly else "stable"
    cov = os.environ.get("VERIF_COVERAGE")   # diagnostic mode of tools/coverage.sh: one instrumented nightly build serves both
    if cov:
        key = "cov"
    if key in _INPROC_BUILT:
        return _INPROC_BUILT[key]
    crate = os.path.join(VERIF, "engines", "inproc")
    tdir = os.path.join(TARGET, "inproc-" + key)
    env = base_env()
    env["CARGO_TARGET_DIR"] = tdir
    cmd = ["cargo"] + (["+nightly"] if nightly or cov else []) + ["build", "--release", "--offline", "--quiet"]
    if nightly or cov:
        cmd += ["--features", "rustc_ref"]
    if cov:
        env["RUSTFLAGS"] = "-C instrument-coverage"
    p = run(cmd, cwd=crate, env=env, timeout=1200)
    if p.returncode != 0:
        raise MachineryError("inproc engine build failed:\n" + p.stderr[-8000:])
    path = os.path.join(tdir, "release", "inproc")
    _INPROC_BUILT[key] = path
    return path


def inproc_run(args, nightly=False, input=None, timeout=3600):
    """Runs an explorer sub-command of the inproc engine; returns parsed JSON of its last stdout line."""
    exe = inproc_bin(nightly)
    env = base_env()
    if nightly:
        # rustc_driver shared library
        sysroot = run(["rustc", "+nightly", "--print", "sysroot"], check=True).stdout.strip()
        env["LD_LIBRARY_PATH"] = os.path.join(sysroot, "lib") + ":" + env.get("LD_LIBRARY_PATH", "")
    p = run([exe] + args, env=env, input=input, timeout=timeout)
    return p


def svc(requests, chunk=20000, timeout=300):
    """Expands `requests` (dicts with derive,item[,id]) through the real expanders, in-process.
    Returns list of result dicts in order.  A chunk that kills or hangs the engine is bisected so the
    culprit is attributed (result k = 'abort' / 'timeout')."""
    exe = inproc_bin()
    out = [None] * len(requests)
    dump = os.environ.get("VERIF_SVC_DUMP")   # diagnostic aid: collect the request corpus of a run (tools/mutation_gaps.py)
    if dump:
        with open(dump, "a") as f:
            for q in requests:
                f.write(json.dumps({"derive": q["derive"], "item": q["item"]}) + "\n")

    def do(lo, hi):
        lines = "\n".join(json.dumps({"id": i, "derive": requests[i]["derive"], "item": requests[i]["item"], "canon": bool(requests[i].get("canon")), "where": bool(requests[i].get("where")), "group": bool(requests[i].get("group")), **({"foreign": requests[i]["foreign"]} if "foreign" in requests[i] else {}), **({"foreign_text": requests[i]["foreign_text"]} if "foreign_text" in requests[i] else {}), **({"decorate": requests[i]["decorate"]} if "decorate" in requests[i] else {}), **({"parse": True} if requests[i].get("parse") else {}), **({"respace": requests[i]["respace"]} if "respace" in requests[i] else {})})
                          for i in range(lo, hi)) + "\n"
        try:
            p = subprocess.run([exe, "svc"], input=lines, stdout=subprocess.PIPE, stderr=subprocess.PIPE,
                               text=True, timeout=timeout, env=base_env())
            ok = p.returncode == 0
            why = "abort rc=%s %s" % (p.returncode, p.stderr[-300:])
        except subprocess.TimeoutExpired:
            ok = False
            why = "timeout"
        if ok:
            res = [json.loads(l) for l in p.stdout.splitlines() if l.strip()]
            if len(res) != hi - lo:
                raise MachineryError("svc returned %d results for %d requests" % (len(res), hi - lo))
            for r in res:
                out[r["id"]] = r
            return
        if hi - lo == 1:
            out[lo] = {"id": lo, "k": "timeout" if why == "timeout" else "abort", "msg": why}
            return
        mid = (lo + hi) // 2
        do(lo, mid)
        do(mid, hi)

    for lo in range(0, len(requests), chunk):
        do(lo, min(len(requests), lo + chunk))
    return out


# ----------------------------------------------------------------------------------------------
# known findings / violations / evidence

def load_known():
    path = os.path.join(VERIF, "known_findings.json")
    if not os.path.exists(path):
        return []
    with open(path) as f:
        return json.load(f)["findings"]


class Check:
    """One run of one property's check."""

    def __init__(self, prop, tier, level="model_checking"):
        self.prop = prop
        self.tier = tier
        self.level = level
        self.seed = int(os.environ.get("VERIF_SEED", "0") or 0)
        self.t0 = time.time()
        self.states = 0
        self.transitions = 0
        self.validated = 0
        self.samples = []
        self.outcomes = {}
        self.parts = {}
        self.assumptions = []
        self.caps = []
        self.violations = {}      # signature -> dict
        self.known_hits = {}      # finding id -> count
        self.known = [k for k in load_known() if k.get("property") == prop]
        self.extra = {}
        self.exhaustive = True

    # -- counting -------------------------------------------------------------------------------
    def count(self, states=0, transitions=0, validated=None):
        self.states += states
        self.transitions += transitions
        self.validated += states if validated is None else validated

    def outcome(self, key, n=1):
        self.outcomes[key] = self.outcomes.get(key, 0) + n

    def sample(self, s, limit=12):
        # keep a bounded pool; finish() picks evenly spaced ones so samples span the space
        self._nsample = getattr(self, "_nsample", 0) + 1
        if len(self.samples) < 4096:
            self.samples.append(s)
        elif self._nsample % 97 == 0:
            self.samples[(self._nsample // 97) % 4096] = s

    def part(self, name, **kw):
        self.parts.setdefault(name, {}).update(kw)

    # -- violations -----------------------------------------------------------------------------
    def violation(self, signature, witness, detail, known_id=None):
        """Records a violation.  `known_id` is the id of the known-finding class this violation
        falls in according to the check's own (precise) predicate, or None."""
        if known_id is not None:
            entry = next((k for k in self.known if k.get("id") == known_id and k.get("status") == "known"), None)
            if entry is not None:
                h = self.known_hits.setdefault(known_id, {"count": 0, "witness": witness, "entry": entry})
                h["count"] += 1
                return
        v = self.violations.setdefault(signature, {"count": 0, "witness": witness, "detail": detail})
        v["count"] += 1

    def finish(self):
        wall = time.time() - self.t0
        os.makedirs(EVIDENCE_DIR, exist_ok=True)
        for kid, h in sorted(self.known_hits.items()):
            print("KNOWN-FINDING: property=%s %s: %s (hits=%d, e.g. %s)" % (
                self.prop, kid, h["entry"].get("what", ""), h["count"], _short(h["witness"])))
        rc = 0
        vio_list = []
        for sig, v in sorted(self.violations.items()):
            rdir = os.path.join(REPLAY_DIR, self.prop)
            os.makedirs(rdir, exist_ok=True)
            name = hashlib.sha1(sig.encode()).hexdigest()[:12] + ".json"
            rpath = os.path.join(rdir, name)
            with open(rpath, "w") as f:
                json.dump({"property": self.prop, "signature": sig, "count": v["count"],
                           "witness": v["witness"], "detail": v["detail"]}, f, indent=1, default=str)
            print("VIOLATION property=%s replay=%s" % (self.prop, rpath))
            print("  signature: %s\n  witness: %s\n  detail: %s" % (sig, _short(v["witness"], 400), _short(v["detail"], 600)))
            vio_list.append({"signature": sig, "count": v["count"], "replay": rpath})
            rc = 1
        cov = {
            "states": int(self.states),
            "transitions": int(max(self.transitions, 0)),
            "traces_validated_against_impl": int(self.validated),
            "samples": _spread(self.samples, 12) or ["<none>"],
            "exhaustive": bool(self.exhaustive and not self.caps),
            "distinct_observed_outcomes": len(self.outcomes),
            "outcome_histogram": dict(sorted(self.outcomes.items(), key=lambda kv: -kv[1])[:40]),
            "parts": self.parts,
            "caps_hit": self.caps,
            "known_findings_hit": {k: h["count"] for k, h in self.known_hits.items()},
            "violations_by_signature": vio_list,
        }
        cov.update(self.extra)
        ev = {
            "property_id": self.prop,
            "tier": self.tier,
            "seed": self.seed,
            "level": self.level,
            "coverage": cov,
            "assumptions": self.assumptions,
            "wall_s": round(wall, 2),
            "violations": len(self.violations),
        }
        if self.states < 1 or self.transitions < 1:
            print("MACHINERY: vacuous run (states=%d transitions=%d)" % (self.states, self.transitions))
            rc = max(rc, 2) if rc != 1 else 1
        with open(os.path.join(EVIDENCE_DIR, self.prop + ".json"), "w") as f:
            json.dump(ev, f, indent=1, default=str)
        print("%s %s: states=%d transitions=%d validated=%d outcomes=%d known=%d violations=%d wall=%.1fs" % (
            self.prop, self.tier, self.states, self.transitions, self.validated, len(self.outcomes),
            len(self.known_hits), len(self.violations), wall))
        return rc


def _spread(xs, k):
    if len(xs) <= k:
        return list(xs)
    step = (len(xs) - 1) / float(k - 1)
    return [xs[int(round(i * step))] for i in range(k)]


def _short(x, n=200):
    s = x if isinstance(x, str) else json.dumps(x, default=str)
    return s if len(s) <= n else s[:n] + "..."
