#!/bin/sh
# Builds the framework offline from files on disk: the inproc engine (stable; nightly variant with the
# rustc_parse_format reference) and warms the compile-engine target dir (derive_more + deps).
set -e
cd "$(dirname "$0")"
export CARGO_NET_OFFLINE=true
python3 - <<'PY'
import sys, os
sys.path.insert(0, "lib")
import common
print("inproc (stable):", common.inproc_bin(False))
try:
    print("inproc (nightly, rustc_ref):", common.inproc_bin(True))
except Exception as e:  # reported by the checks that need it as a machinery error
    print("WARNING: nightly inproc build failed:", str(e)[:2000])
from compile_engine import CompileEngine, Case
eng = CompileEngine("SETUP")
eng.run_cases([Case("warm", "pub fn run(r: &mut super::R) { r.check(\"warm\", true); }")])
print("compile engine warmed")
import subprocess
env = common.base_env(); env["CARGO_TARGET_DIR"] = os.path.join(common.TARGET, "dbgtuple")
p = subprocess.run(["cargo", "build", "--release", "--offline", "--quiet"], cwd=os.path.join(common.VERIF, "engines", "dbgtuple"), env=env)
print("dbgtuple engine:", "ok" if p.returncode == 0 else "FAILED")
PY
