"""C04 - inferred formatting bounds on generics are sufficient and not excessive (DESIGN.md §3 C04)."""
import itertools
import re

from common import svc
from compile_engine import Case, CompileEngine

# generic field type forms: name -> (type text with {T} and 'a, traits std implements for it when T does (for instantiation))
FORMS = {
    "T": "{T}",
    "ref": "&'a {T}",
    "array": "[{T}; 2]",
    "tuple": "({T}, u8)",
    "vec": "Vec<{T}>",
    "opt_ref": "Option<&'a {T}>",
    "qassoc": "<{T} as Tr>::A",
    "assoc": "{T}::A",
    "qassoc_arg": "<u8 as Tr3<{T}>>::A",
    "gat": "<u8 as Fam>::M<{T}>",
    "fnptr": "fn({T}) -> u8",
    "rawptr": "*const {T}",
    "phantom": "::core::marker::PhantomData<{T}>",
    "wrapper": "W<{T}>",
    "dyn": "Box<dyn Tr2<{T}>>",
    "plain": "u8",            # not generic
    # forms added after the coverage diagnostic (tools/coverage.sh) showed these arms of `contains_generics` unreached
    "slice_ref": "&'a [{T}]",
    "paren": "({T})",
    "fn_ret": "fn() -> {T}",
    "dyn_fn": "Box<dyn Fn({T}) -> u8>",
    "dyn_fn_ret": "Box<dyn Fn() -> {T}>",
    "dyn_assoc": "Box<dyn Iterator<Item = {T}>>",
    # forms added after the mutation-gap diagnostic (tools/mutation_gaps.py): mixed generic / non-generic components, and
    # non-generic types of the same syntactic kinds (they must get no bound at all)
    "fn_mixed": "fn(u8, {T}) -> u8",
    "dyn_two": "Box<dyn Tr2<{T}> + Send>",
    "dyn_two_rev": "Box<dyn Send + Tr2<{T}>>",
    "dyn_fn_mixed": "Box<dyn Fn(u8, {T}) -> u8>",
    "tuple_mixed": "(u8, {T})",
    "plain_fn": "fn(u8)",
    "plain_dyn_fn": "Box<dyn Fn(u8)>",
    "plain_path": "::core::primitive::u8",
    "plain_generic_path": "::core::option::Option<u8>",
    # trait objects with lifetime bounds (the lifetime bound is only inspected when no earlier bound mentions a parameter)
    "plain_dyn_lt": "Box<dyn Send + 'static>",
    "dyn_lt_first": "Box<dyn 'static + Tr2<{T}>>",
    "dyn_lt_last": "Box<dyn Tr2<{T}> + 'static>",
}
CORE_FORMS = ("T", "plain", "ref", "vec")
NONGENERIC = ("plain", "plain_fn", "plain_dyn_fn", "plain_path", "plain_generic_path", "plain_dyn_lt")
NEW_FORMS = ("slice_ref", "paren", "fn_ret", "dyn_fn", "dyn_fn_ret", "dyn_assoc", "fn_mixed", "dyn_two", "dyn_two_rev", "dyn_fn_mixed", "tuple_mixed",
             "plain_fn", "plain_dyn_fn", "plain_path", "plain_generic_path", "plain_dyn_lt", "dyn_lt_first", "dyn_lt_last")
TRAITS = {"Display": "", "Debug": "?", "LowerHex": "x", "Pointer": "p"}
ATTR = {"Display": "display", "Debug": "debug", "LowerHex": "lower_hex"}
STYLES = ["none", "named", "positional", "alias", "expr_bound"]


def nows(s):
    return "".join(s.split())


def pred(ty, tr):
    """The predicate inferred for a formatted generic field: on the field's type - on its referent if the type is a reference
    (`&'a T: Debug` next to another bound on `T` would take over the resolution of `&'x T: Debug` for every lifetime), and none at
    all for Pointer on a reference, which every reference implements.  Returns the whitespace-free predicate or None."""
    peeled = re.sub(r"^(?:&\s*(?:'\w+\s+)?(?:mut\s+)?)+", "", ty)
    if peeled != ty and tr == "Pointer":
        return None
    return nows("%s : derive_more :: core :: fmt :: %s" % (peeled, tr))


def where_preds(out):
    """Predicates of the first impl's where-clause that mention a type parameter, whitespace-free."""
    m = re.search(r" where (.*?) \{ (?:# \[inline\] )?fn fmt", out)
    if not m:
        return set()
    text = m.group(1)
    preds, depth, cur = [], 0, ""
    prev = ""
    for ch in text:
        if ch in "<([":
            depth += 1
        elif ch in ")]":
            depth -= 1
        elif ch == ">" and prev != "-":
            depth -= 1
        if ch == "," and depth == 0:
            preds.append(cur)
            cur = ""
        else:
            cur += ch
        if not ch.isspace():
            prev = ch
    if cur.strip():
        preds.append(cur)
    return {nows(p) for p in preds if p.strip()}


class Field:
    def __init__(self, i, form, style, tr, named):
        self.i, self.form, self.style, self.tr = i, form, style, tr
        self.param = "T%d" % i
        self.generic = form not in NONGENERIC
        self.ty = FORMS[form].replace("{T}", self.param)
        self.name = ("f%d" % i) if named else ("_%d" % i)
        if named == "raw":   # raw-identifier field names: `r#type` in Rust code, `type` inside a format literal
            self.name = ("r#type", "r#fn", "r#struct")[i]
        if named == "und":   # NAMED fields that look like tuple positions (`_1` is the first field, `_0` the second): found by name, not by index
            self.name = ("_1", "_0", "_2")[i]
        self.lname = self.name[2:] if self.name.startswith("r#") else self.name


def build_attr(fields, user_where_ok=True):
    """(literal, args, user bounds, model bound set) for a container-level attribute referring to `fields` by their styles."""
    lit, args, ubounds, model = [], [], [], set()
    for f in fields:
        sp = (":" + TRAITS[f.tr]) if TRAITS[f.tr] else ""
        if f.style == "none":
            continue
        if f.style == "named":
            lit.append("{%s%s}" % (f.lname, sp))
        elif f.style == "positional":
            lit.append("{%d%s}" % (len(args), sp))
            args.append(f.name)
        elif f.style == "positional_far":
            # an explicit index of two digits: ten used filler arguments of a concrete type first
            while len(args) < 10:
                lit.append("{%d}" % len(args))
                args.append("%du8" % len(args))
            lit.append("{%d%s}" % (len(args), sp))
            args.append(f.name)
        elif f.style == "alias":
            lit.append("{a%d%s}" % (f.i, sp))
            args.append("a%d = %s" % (f.i, f.name))
        elif f.style == "positional_named":
            # a named argument referred to by its position (std allows it): the field is formatted under the placeholder's trait
            lit.append("{%d%s}" % (len(args), sp))
            args.append("p%d = %s" % (f.i, f.name))
        elif f.style == "shadow_expr":
            # an alias named like the field, bound to an expression that is not an identifier: the placeholder denotes the
            # argument, not the field, so the field's type gets no bound
            lit.append("{%s%s}" % (f.lname, sp))
            args.append("%s = &7u8" % f.name)
            continue
        elif f.style == "expr_bound":
            lit.append("{%d%s}" % (len(args), sp))
            args.append("&%s" % f.name)
            if f.generic:
                ubounds.append("%s: ::core::fmt::%s" % (f.ty, f.tr))
            continue
        if f.generic:
            model.add(pred(f.ty, f.tr))
    # positional args must precede named ones
    pos = [a for a in args if " = " not in a]
    named = [a for a in args if " = " in a]
    # re-number positional placeholders accordingly (they were numbered by insertion; rebuild)
    return lit, args, ubounds, model


def make_item(derive, container, named, fields, level, own_where=False):
    """Returns (item text, expected where-predicate set, description)."""
    attr = ATTR[derive]
    gens = ["'a"] + [f.param + ": Tr" if f.form in ("qassoc", "assoc") else f.param for f in fields if f.generic]
    needs_lt = any("'a" in f.ty for f in fields)
    if not needs_lt:
        gens = gens[1:]
    gdecl = "<%s>" % ", ".join(gens) if gens else ""
    # positional args first, then aliases: order fields so that styles produce a valid argument list
    lit, args, ubounds, model = [], [], [], set()
    ordered = [f for f in fields if f.style in ("positional", "expr_bound")] + [f for f in fields if f.style == "positional_far"] + [f for f in fields if f.style in ("alias", "shadow_expr", "positional_named")] + [f for f in fields if f.style == "named"]
    l2, a2, u2, m2 = build_attr(ordered)
    lit_s = " ".join(l2) if l2 else "text"
    attr_args = '"%s"%s' % (lit_s, (", " + ", ".join(a2)) if a2 else "")
    ub = "".join(" #[%s(bound(%s))]" % (attr, u) for u in u2)
    model = set(m2) | {nows(u.replace("::core::fmt::", ":: core :: fmt :: ")) for u in u2}
    model = {nows(p) for p in model if p is not None}
    fdecl = ", ".join(("%s: %s" % (f.name, f.ty)) if named else f.ty for f in fields)
    body = ("{ %s }" % fdecl) if named else ("(%s)" % fdecl)
    # the type's own where-clause (its predicates must be kept next to the inferred ones)
    wc = ""
    if own_where:
        gp = [f.param for f in fields if f.generic]
        if gp:
            wc = " where %s: Clone" % gp[0]
            model.add(nows("%s : Clone" % gp[0]))
    if level == "struct":
        item = ("#[%s(%s)]%s struct S%s%s %s" % (attr, attr_args, ub, gdecl, wc, body)) if named else ("#[%s(%s)]%s struct S%s %s%s;" % (attr, attr_args, ub, gdecl, body, wc))
    elif level == "variant":
        item = "%s enum S%s%s { #[%s(%s)] V %s, #[%s(\"w\")] W }" % (ub, gdecl, wc, attr, attr_args, body, attr)
    elif level == "shared_default":
        item = "#[%s(%s)]%s enum S%s%s { V %s, #[%s(\"w\")] W }" % (attr, attr_args, ub, gdecl, wc, body, attr)
    elif level == "shared_wrapping":
        item = '#[%s("{_variant} | %s"%s)]%s enum S%s%s { #[%s("own")] V %s, #[%s("w")] W }' % (
            attr, lit_s, (", " + ", ".join(a2)) if a2 else "", ub, gdecl, wc, attr, body, attr)
    else:
        raise ValueError(level)
    return item, model


def debug_implicit_item(named, fields, fattrs, own_where=False):
    """derive(Debug) without container attribute; fattrs: per field None | 'skip' | (literal, args, referenced field indices, traits)"""
    gens = [f.param + ": Tr" if f.form in ("qassoc", "assoc") else f.param for f in fields if f.generic]
    if any("'a" in f.ty for f in fields):
        gens = ["'a"] + gens
    gdecl = "<%s>" % ", ".join(gens) if gens else ""
    model = set()
    parts = []
    for f, fa in zip(fields, fattrs):
        a = ""
        if fa == "skip":
            a = "#[debug(skip)] "
        elif fa is not None:
            lit, refs = fa
            a = '#[debug("%s")] ' % lit
            for j, tr in refs:
                if fields[j].generic:
                    model.add(pred(fields[j].ty, tr))
        elif f.generic:
            model.add(pred(f.ty, "Debug"))
        parts.append(a + (("%s: %s" % (f.name, f.ty)) if named else f.ty))
    body = ("{ %s }" % ", ".join(parts)) if named else ("(%s)" % ", ".join(parts))
    wc = ""
    gp = [f.param for f in fields if f.generic]
    if own_where and gp:
        wc = " where %s: Clone" % gp[0]
        model.add(nows("%s : Clone" % gp[0]))
    if named:
        return "struct S%s%s %s" % (gdecl, wc, body), model
    return "struct S%s %s%s;" % (gdecl, body, wc), model


PRELUDE = r'''
pub trait Tr { type A; }
pub trait Tr2<T> {}
pub trait Tr3<X> { type A; }
impl<X> Tr3<X> for u8 { type A = W<X>; }
pub trait Fam { type M<X>; }
impl Fam for u8 { type M<X> = W<X>; }
pub struct W<T>(pub T);
impl<T: ::core::fmt::Display> ::core::fmt::Display for W<T> { fn fmt(&self, f: &mut ::core::fmt::Formatter<'_>) -> ::core::fmt::Result { self.0.fmt(f) } }
impl<T: ::core::fmt::Debug> ::core::fmt::Debug for W<T> { fn fmt(&self, f: &mut ::core::fmt::Formatter<'_>) -> ::core::fmt::Result { self.0.fmt(f) } }
impl<T: ::core::fmt::LowerHex> ::core::fmt::LowerHex for W<T> { fn fmt(&self, f: &mut ::core::fmt::Formatter<'_>) -> ::core::fmt::Result { self.0.fmt(f) } }
/// implements no formatting trait at all
pub struct NoFmt;
impl Tr for NoFmt { type A = u8; }
impl Tr for i32 { type A = u8; }
pub fn assert_impl<T: ?Sized + ::core::fmt::Display>() {}
pub fn assert_impl_debug<T: ?Sized + ::core::fmt::Debug>() {}
pub fn assert_impl_lowerhex<T: ?Sized + ::core::fmt::LowerHex>() {}
'''

# does `form<X>: trait` hold for X = NoFmt / X = i32 ?  (std impls)
def holds(form, tr, x_fmt):
    if form in ("plain",):
        return True
    if form in ("qassoc", "assoc"):
        return tr in ("Display", "Debug", "LowerHex")  # A = u8
    if form in ("fnptr", "rawptr"):
        return tr in ("Debug", "Pointer")
    if form == "phantom":
        return tr == "Debug"
    if form in ("dyn", "dyn_fn", "dyn_fn_ret", "dyn_assoc", "dyn_two", "dyn_two_rev", "dyn_fn_mixed", "plain_dyn_fn", "plain_dyn_lt", "dyn_lt_first", "dyn_lt_last"):
        return False
    if form in ("plain_path",):
        return True
    if form == "plain_generic_path":
        return tr == "Debug"
    if form in ("fn_mixed", "plain_fn"):
        return tr in ("Debug", "Pointer")
    if form == "tuple_mixed":
        return x_fmt and tr == "Debug"
    if form == "fn_ret":
        return tr in ("Debug", "Pointer")
    if form == "paren":
        return x_fmt and tr in ("Display", "Debug", "LowerHex")
    if form == "slice_ref":
        return (x_fmt and tr == "Debug") or tr == "Pointer"
    if form in ("qassoc_arg", "gat"):
        return x_fmt and tr in ("Display", "Debug", "LowerHex")
    if form in ("T", "ref", "wrapper"):
        return x_fmt and tr in ("Display", "Debug", "LowerHex") or (form == "ref" and tr == "Pointer")
    if form in ("array", "tuple", "vec", "opt_ref"):
        return x_fmt and tr == "Debug"
    return False


def run(chk, tier):
    thorough = tier == "thorough"
    forms = list(FORMS)
    # ---------------- (A) in-process: where-clause equals the model, over the whole space
    reqs, metas = [], []
    traits_cycle = ["Display", "Debug", "LowerHex", "Pointer"]
    for derive in ("Display", "LowerHex", "Debug"):
        for named in (False, True, "raw", "und"):
            for n in ((1, 2, 3) if named not in ("raw", "und") else (1, 2)):
                six = ("T", "ref", "vec", "plain", "qassoc_arg", "fnptr")
                form_sets = list(itertools.product(forms, repeat=n)) if n <= 2 else (
                    list(itertools.product(six, repeat=n)) if thorough else
                    [fs for fs in itertools.product(forms, repeat=n) if fs[0] in ("T", "vec", "plain", "assoc") and fs[2] in ("ref", "plain", "wrapper", "phantom")])
                style_sets = list(itertools.product(STYLES + (["shadow_expr", "positional_named", "positional_far"] if n <= 2 else []), repeat=n))
                for fs in form_sets:
                    if named in ("raw", "und") and n == 2 and not (fs[0] in CORE_FORMS and fs[1] in CORE_FORMS):
                        continue
                    if n == 2 and not thorough and (fs[0] in NEW_FORMS or fs[1] in NEW_FORMS) and not (fs[0] in CORE_FORMS or fs[1] in CORE_FORMS):
                        continue   # quick: a later-added form is paired with the four core forms only
                    for ss in style_sets:
                        if not thorough and n == 2 and any(f in NEW_FORMS for f in fs) and any(st in ("alias", "expr_bound", "shadow_expr", "positional_named", "positional_far") for st in ss):
                            continue   # quick: the later-added forms with the three basic reference styles only
                        for rot in ((0, 1, 2) if n == 1 else (0,)):
                            fields = [Field(i, fs[i], ss[i], traits_cycle[(i + rot) % 4], named) for i in range(n)]
                            for level in ("struct", "variant", "shared_default", "shared_wrapping"):
                                if derive == "Debug" and level.startswith("shared"):
                                    continue
                                if n == 3 and level != "struct" and not thorough:
                                    continue
                                item, model = make_item(derive, level, named, fields, level)
                                reqs.append({"derive": derive, "item": item})
                                metas.append((item, model, "%s/%s" % (derive, level)))
                                if n == 1 and level == "struct":
                                    # the same item as a `macro_rules!` expansion hands it over (field types in None-delimited groups)
                                    reqs.append({"derive": derive, "item": item, "group": True})
                                    metas.append((item + "  [field types grouped]", model, "%s/%s/grouped-types" % (derive, level)))
                                if n == 1 and fields[0].generic and named not in ("raw", "und"):
                                    item, model = make_item(derive, level, named, fields, level, own_where=True)
                                    reqs.append({"derive": derive, "item": item})
                                    metas.append((item, model, "%s/%s/own-where-clause" % (derive, level)))
    # implicit delegation to the single field (no attribute of the struct's / variant's own), alone, under a shared default that
    # the variant does not use... and under a *wrapping* shared format (`_variant`), which may also refer to the field itself
    for derive in ("Display", "LowerHex"):
        for named in (False, True):
            for form in forms:
                f = Field(0, form, "none", derive, named)
                gens = (["'a"] if "'a" in f.ty else []) + ([f.param + ": Tr" if form in ("qassoc", "assoc") else f.param] if f.generic else [])
                gdecl = "<%s>" % ", ".join(gens) if gens else ""
                body = ("{ %s: %s }" % (f.name, f.ty)) if named else "(%s)" % f.ty
                own = {pred(f.ty, derive)} if f.generic else set()
                dbg = {pred(f.ty, "Debug")} if f.generic else set()
                a = ATTR[derive]
                variants = [
                    ("implicit/struct", "struct S%s %s%s" % (gdecl, body, "" if named else ";"), own),
                    ("implicit/variant", 'enum S%s { V %s, #[%s("w")] W }' % (gdecl, body, a), own),
                    ("implicit/variant-under-wrapping-shared", '#[%s("<{_variant}>")] enum S%s { V %s, #[%s("w")] W }' % (a, gdecl, body, a), own),
                    ("implicit/variant-under-wrapping-shared-arg", '#[%s("<{}>", _variant)] enum S%s { V %s, #[%s("w")] W }' % (a, gdecl, body, a), own),
                    ("implicit/variant-under-wrapping-shared-naming-the-field", '#[%s("{_variant} | {%s:?}")] enum S%s { V %s }' % (a, f.name, gdecl, body), own | dbg),
                    ("implicit/two-variants-under-wrapping-shared", '#[%s("<{_variant}>")] enum S%s { V %s, U %s }' % (a, gdecl, body, body), own),
                ]
                if f.generic:
                    # an attribute that only carries explicit bounds (no format literal): the bounds are kept next to the inferred one
                    clone = {nows("%s : Clone" % f.param)}
                    variants += [
                        ("implicit/struct-with-bound-only-attribute", "#[%s(bound(%s: Clone))] struct S%s %s%s" % (a, f.param, gdecl, body, "" if named else ";"), own | clone),
                        ("implicit/variant-with-bound-only-attribute", 'enum S%s { #[%s(bound(%s: Clone))] V %s, #[%s("w")] W }' % (gdecl, a, f.param, body, a), own | clone),
                        ("implicit/enum-with-bound-only-attribute", '#[%s(bound(%s: Clone))] enum S%s { V %s, #[%s("w")] W }' % (a, f.param, gdecl, body, a), own | clone),
                    ]
                for kind, item, model in variants:
                    reqs.append({"derive": derive, "item": item})
                    metas.append((item, model, "%s/%s" % (derive, kind)))
    # Debug without container attribute: implicit fields, skip, field-level attributes (on generic and on non-generic fields)
    for named in (False, True):
        for n in (1, 2, 3):
            for fs in itertools.product(forms if n <= 2 else ([f for f in forms if f not in NEW_FORMS] if thorough else ["T", "vec", "plain", "ref", "assoc"]), repeat=n):
                if n == 2 and not thorough and (fs[0] in NEW_FORMS or fs[1] in NEW_FORMS) and not (fs[0] in CORE_FORMS or fs[1] in CORE_FORMS):
                    continue
                opts = []
                for i in range(n):
                    o = [None, "skip"]
                    for j in range(n):
                        nm = ("f%d" % j) if named else ("_%d" % j)
                        o.append(("{%s:?}" % nm, [(j, "Debug")]))
                        if j != i:
                            o.append(("{%s} {%s:x}" % (nm, ("f%d" % i) if named else ("_%d" % i)), [(j, "Display"), (i, "LowerHex")]))
                    opts.append(o)
                for fa in itertools.product(*opts):
                    fields = [Field(i, fs[i], "none", "Debug", named) for i in range(n)]
                    item, model = debug_implicit_item(named, fields, list(fa))
                    reqs.append({"derive": "Debug", "item": item})
                    metas.append((item, model, "Debug/fields"))
                    if n <= 2 and any(f.generic for f in fields) and all(f_ in CORE_FORMS or n == 1 for f_ in fs):
                        item, model = debug_implicit_item(named, fields, list(fa), own_where=True)
                        reqs.append({"derive": "Debug", "item": item})
                        metas.append((item, model, "Debug/fields/own-where-clause"))
    # `.*` / `n$` parameters: the implicit counter decides which argument each later placeholder denotes
    star_family = [
        # (literal, args, [(field index, trait)] expected references)
        ("{%(n0)s:.*} {}", "2usize, %(n1)s", [(0, "Display"), (1, "Display")]),
        ("{:.*} {}", "2usize, %(n0)s, %(n1)s", [(0, "Display"), (1, "Display")]),
        ("{1:.*} {:?}", "2usize, %(n0)s, %(n1)s", [(0, "Display"), (0, "Debug")]),
        ("{} {:.*}", "%(n0)s, 2usize, %(n1)s", [(0, "Display"), (1, "Display")]),
        ("{a:.*}|{:?}", "3usize, %(n1)s, a = %(n0)s", [(0, "Display"), (1, "Debug")]),
        ("{:1$} {2:x}", "%(n0)s, 4usize, %(n1)s", [(0, "Display"), (1, "LowerHex")]),   # `1$` does not advance the counter
        ("{:.1$} {2:?} {}", "%(n0)s, 4usize, %(n1)s", [(0, "Display"), (1, "Debug")]),
        ("{0:w$} {:?}", "%(n1)s, w = 4usize", [(1, "Display"), (1, "Debug")]),
    ]
    for derive in ("Display", "Debug"):
        for named in (False, True):
            for fs in itertools.product([f for f in forms if f not in ("dyn",)], repeat=2):
                for lit, args, refs in star_family:
                    fields = [Field(i, fs[i], "none", "Display", named) for i in range(2)]
                    names = {"n0": fields[0].name, "n1": fields[1].name}
                    model = {pred(fields[j].ty, tr) for j, tr in refs if fields[j].generic}
                    gens = [f.param + ": Tr" if f.form in ("qassoc", "assoc") else f.param for f in fields if f.generic]
                    if any("'a" in f.ty for f in fields):
                        gens = ["'a"] + gens
                    gdecl = "<%s>" % ", ".join(gens) if gens else ""
                    fdecl = ", ".join(("%s: %s" % (f.name, f.ty)) if named else f.ty for f in fields)
                    body = ("{ %s }" % fdecl) if named else ("(%s)" % fdecl)
                    item = '#[%s("%s", %s)] struct S%s %s%s' % (ATTR[derive], lit % names, args % names, gdecl, body, "" if named else ";")
                    reqs.append({"derive": derive, "item": item})
                    metas.append((item, model, "%s/star-and-dollar-parameters" % derive))
    total_reqs = len(reqs)
    B = 100000
    for lo in range(0, total_reqs, B):
      res = svc([dict(q, where=True) for q in reqs[lo:lo + B]])
      for (item, model, kind), r in zip(metas[lo:lo + B], res):
          chk.count(states=1, transitions=1)
          if r["k"] != "ok":
              chk.outcome("A-%s/%s" % (r["k"], kind))
              chk.violation("in-process: supported generic input %s (%s)" % (r["k"], kind), item, r.get("msg", "")[:300] + " " + r.get("loc", ""))
              continue
          got = {nows(p) for p in r["where"]}
          model = {m for m in model if m is not None}
          if got == model:
              chk.outcome("A-agree/%s/%d-bounds" % (kind, len(model)))
              continue
          missing, extra = model - got, got - model
          what = "missing" if missing and not extra else ("excess" if extra and not missing else "different")
          feat = "field-attr-on-non-generic-field" if kind == "Debug/fields" and missing and re.search(r"#\[debug\(\"[^\"]*\"\)\] (?:f\d: )?u8", item) else ""
          chk.outcome("A-%s/%s" % (what, kind))
          chk.violation("in-process: %s bounds (%s) %s" % (what, kind, feat), item, "model: %s\nexpansion: %s" % (sorted(model), sorted(got)))
    chk.part("A_inprocess", expansions=total_reqs, forms=forms, styles=STYLES, naming=["positional", "named", "raw-identifier names (1 field: all forms; 2 fields: core forms)"], levels=["struct", "variant", "shared default", "shared wrapping", "implicit single field (struct, variant, variant under a wrapping shared format)", "Debug field attributes / skip / implicit"],
             oracle="where-clause of the real expansion == model set {type of each referenced generic field : trait of the referencing placeholder} U bound(..) predicates")
    for (item, model, kind) in metas[:: max(1, len(metas) // 6)][:6]:
        chk.sample({"item": item, "expected_where_predicates": sorted(model)})

    # ---------------- (B) rustc: sufficiency (compiles with no further bounds) and non-excess (unformatted params may be NoFmt)
    cases = []
    bforms = ["T", "ref", "wrapper", "vec", "assoc", "qassoc_arg", "gat", "rawptr", "phantom", "plain", "tuple", "paren"] + (["array", "opt_ref", "qassoc", "fnptr", "slice_ref", "fn_ret"] if thorough else [])
    for derive in ("Display", "Debug"):
        for named in (False, True):
            for n in (1, 2):
                for fs in itertools.product(bforms, repeat=n):
                    for ss in itertools.product(["none", "named", "positional", "alias"], repeat=n):
                        for level in ("struct", "variant", "shared_default"):
                            if derive == "Debug" and level == "shared_default":
                                continue
                            if n == 2 and level != "struct" and not thorough:
                                continue
                            fields = [Field(i, fs[i], ss[i], ["Display", "Debug"][(i + (derive == "Debug")) % 2], named) for i in range(n)]
                            # only references std can satisfy for a formatting type argument, so instantiation is possible
                            if any(f.style != "none" and not holds(f.form, f.tr, True) for f in fields):
                                continue
                            item, model = make_item(derive, level, named, fields, level)
                            inst = []
                            for f in fields:
                                if not f.generic:
                                    continue
                                inst.append("i32" if f.style != "none" else "NoFmt")
                            lt = "'static, " if any("'a" in f.ty for f in fields) else ""
                            ty = "S<%s%s>" % (lt, ", ".join(inst)) if (inst or lt) else "S"
                            ty = ty.replace(", >", ">")
                            fn = "assert_impl" if derive == "Display" else "assert_impl_debug"
                            mod = "use super::*;\n#[derive(derive_more::%s)]\n%s\npub fn run(r: &mut R) { %s::<%s>(); r.check(\"impl available\", true); }" % (
                                derive, item, fn, ty)
                            cases.append(Case("c%d" % len(cases), mod, meta={"src": "#[derive(%s)] %s" % (derive, item), "inst": ty}))
    # implicit delegation of a single-field variant, alone and under a wrapping shared format: the impl must compile and be available
    for named in (False, True):
        for form in bforms:
            f = Field(0, form, "none", "Display", named)
            if not holds(form, "Display", True):
                continue
            gens = (["'a"] if "'a" in f.ty else []) + ([f.param + ": Tr" if form in ("qassoc", "assoc") else f.param] if f.generic else [])
            gdecl = "<%s>" % ", ".join(gens) if gens else ""
            body = ("{ %s: %s }" % (f.name, f.ty)) if named else "(%s)" % f.ty
            inst = (["'static"] if "'a" in f.ty else []) + (["i32"] if f.generic else [])
            ty = "S<%s>" % ", ".join(inst) if inst else "S"
            for item in ('enum S%s { V %s, #[display("w")] W }' % (gdecl, body),
                         '#[display("<{_variant}>")] enum S%s { V %s, #[display("w")] W }' % (gdecl, body),
                         '#[display("{_variant} | {%s}")] enum S%s { V %s }' % (f.name, gdecl, body)):
                mod = "use super::*;\n#[derive(derive_more::Display)]\n%s\npub fn run(r: &mut R) { assert_impl::<%s>(); r.check(\"impl available\", true); }" % (item, ty)
                cases.append(Case("c%d" % len(cases), mod, meta={"src": "#[derive(Display)] %s" % item, "inst": ty}))
    # a generic field whose type names the parameter only through `Self` (a projection of the deriving type) or through a type macro
    for derive, ph in (("Display", ""), ("Debug", ":?")):
        fn = "assert_impl" if derive == "Display" else "assert_impl_debug"
        a = ATTR[derive]
        for item, extra in (
                ('#[%s("{_0%s}")] struct S<T>(<Self as Own>::Out, ::core::marker::PhantomData<T>);' % (a, ph), "impl<T> Own for S<T> { type Out = T; }"),
                ('#[%s("{x%s}")] struct S<T> { x: <Self as Own>::Out, y: ::core::marker::PhantomData<T> }' % (a, ph), "impl<T> Own for S<T> { type Out = Vec<T>; }"),
                ('enum S<T> { #[%s("{_0%s}")] V(<Self as Own>::Out), #[%s("w")] W(::core::marker::PhantomData<T>) }' % (a, ph, a), "impl<T> Own for S<T> { type Out = T; }"),
                ('#[%s("{_0%s}")] struct S<T>(IdTy!(T));' % (a, ph), ""),
                ('#[%s("{_0%s} {_1%s}")] struct S<T, U>(IdTy!(Vec<T>), IdTy!(u8), ::core::marker::PhantomData<U>);' % (a, ph, ph), "")):
            if derive == "Display" and "Vec<T>" in item + extra:
                continue
            ty = "S<i32, NoFmt>" if "<T, U>" in item else "S<i32>"
            mod = "use super::*;\npub trait Own { type Out; }\nmacro_rules! IdTy { ($t:ty) => { $t } }\n#[derive(derive_more::%s)]\n%s\n%s\npub fn run(r: &mut R) { %s::<%s>(); r.check(\"impl available\", true); }" % (derive, item, extra, fn, ty)
            cases.append(Case("c%d" % len(cases), mod, meta={"src": "#[derive(%s)] %s %s" % (derive, item, extra), "inst": ty}))
    # fields SHARING a parameter, one of them behind a reference (the forms above give every field a parameter of its own)
    for derive, item, ty in (
            ("Debug", "struct S<'a, T> { old: &'a T, new: T }", "S<'static, i32>"),
            ("Debug", "struct S<'a, 'b, T>(&'a T, &'b T);", "S<'static, 'static, i32>"),
            ("Debug", "enum S<'a, T> { A(T), B(&'a T), C { x: &'a mut T, y: Vec<T> } }", "S<'static, i32>"),
            ("Debug", "struct S<'a, T>(Vec<T>, &'a Vec<T>, &'a [T]);", "S<'static, i32>"),
            ("Display", "#[display(\"{old} -> {new}\")] struct S<'a, T> { old: &'a T, new: T }", "S<'static, i32>"),
            ("Display", "#[display(\"{_0} {_1}\")] struct S<'a, 'b, T>(&'a T, &'b &'a T);", "S<'static, 'static, i32>"),
            ("Display", "enum S<'a, T> { #[display(\"{_0}\")] A(T), #[display(\"{_0}\")] B(&'a T), #[display(\"{x}{y:?}\")] C { x: &'a mut T, y: &'a T } }", "S<'static, i32>"),
            ("Display", "#[display(\"{a:p} {b:p} {c}\")] struct S<'a, 'b, T> { a: &'a T, b: &'b T, c: T }", "S<'static, 'static, i32>")):
        fn = "assert_impl" if derive == "Display" else "assert_impl_debug"
        mod = "use super::*;\n#[derive(derive_more::%s)]\n%s\npub fn run(r: &mut R) { %s::<%s>(); r.check(\"impl available\", true); }" % (derive, item, fn, ty)
        cases.append(Case("c%d" % len(cases), mod, meta={"src": "#[derive(%s)] %s" % (derive, item), "inst": ty}))
    # a field type that only LOOKS like the deriving type (an associated type or a foreign type of the same name), reaches it behind a raw
    # pointer / PhantomData, or is a reference to a trait object: the exact bound has to stay (commit review of 6917232 / a548dc5)
    for derive, item, ty, extra in (
            ("Debug", "struct Item<I: Iterator>(I::Item);", "Item<::core::option::IntoIter<i32>>", ""),
            ("Display", '#[display("{_0}")] struct Output<F: ::core::ops::Add>(F::Output);', "Output<i32>", ""),
            ("Debug", "struct Idd<T>(ext::Idd<T>);", "Idd<NoFmt>", "mod ext { pub struct Idd<T>(pub ::core::marker::PhantomData<T>); impl<T> ::core::fmt::Debug for Idd<T> { fn fmt(&self, f: &mut ::core::fmt::Formatter<'_>) -> ::core::fmt::Result { f.write_str(\"x\") } } }"),
            ("Debug", "struct Node<T> { id: u32, parent: *const Node<T>, marker: ::core::marker::PhantomData<Node<T>>, #[debug(skip)] value: Option<T> }", "Node<NoFmt>", ""),
            ("Debug", "enum Tree<T> { Leaf(T), Node(Vec<(T, Self)>) }", "Tree<i32>", ""),
            ("Debug", "struct Scene<'a, T> { shape: &'a dyn Shape<T> }", "Scene<'static, i32>", "pub trait Shape<T>: ::core::fmt::Debug {}"),
            ("Debug", "enum Scene<'a, T> { One(&'a mut (dyn Shape<T> + Send)), Two { a: &'a dyn Shape<T>, b: T } }", "Scene<'static, i32>", "pub trait Shape<T>: ::core::fmt::Debug {}"),
            # ... reached through a path from a path keyword, as the field's own type (it cannot be the deriving type there: third reading, of 7d8fc15)
            ("Debug", "struct Idd<T>(self::ext::Idd<T>);", "Idd<NoFmt>", "mod ext { pub struct Idd<T>(pub ::core::marker::PhantomData<T>); impl<T> ::core::fmt::Debug for Idd<T> { fn fmt(&self, f: &mut ::core::fmt::Formatter<'_>) -> ::core::fmt::Result { f.write_str(\"x\") } } }"),
            ("Display", "#[display(\"{_0}\")] struct Idd<T>(self::ext::Idd<T>);", "Idd<NoFmt>", "mod ext { pub struct Idd<T>(pub ::core::marker::PhantomData<T>); impl<T> ::core::fmt::Display for Idd<T> { fn fmt(&self, f: &mut ::core::fmt::Formatter<'_>) -> ::core::fmt::Result { f.write_str(\"x\") } } }"),
            # ... a reference to a type macro next to a plain field of the same parameter (third reading, of f2e7a21)
            ("Debug", "struct Pair<'a, T>(&'a IdM!(T), T);", "Pair<'static, i32>", "macro_rules! IdM { ($t:ty) => { $t } }"),
            ("Debug", "struct Pair<'a, T> { a: &'a mut IdM!(T), b: T, c: &'a &'a IdM!(T) }", "Pair<'static, i32>", "macro_rules! IdM { ($t:ty) => { $t } }"),
            ("Display", "#[display(\"{_0} {_1}\")] struct Pair<'a, T>(&'a IdM!(T), T);", "Pair<'static, i32>", "macro_rules! IdM { ($t:ty) => { $t } }"),
            # ... the trait object written by a macro in type position (second reading of 0e646ea)
            ("Debug", "struct Scene<'a, T>(&'a Obj!(T));", "Scene<'static, i32>", "pub trait Shape<T>: ::core::fmt::Debug {}\nmacro_rules! Obj { ($t:ty) => { dyn Shape<$t> } }"),
            ("Display", "#[display(\"{_0}\")] struct Scene<'a, T>(&'a mut Obj!(T));", "Scene<'static, i32>", "pub trait Shape<T>: ::core::fmt::Display {}\nmacro_rules! Obj { ($t:ty) => { dyn Shape<$t> + Send } }")):
        fn = "assert_impl" if derive == "Display" else "assert_impl_debug"
        name = ty.split("<")[0]
        mod = "use super::*;\n%s\n#[derive(derive_more::%s)]\n%s\npub fn run(r: &mut R) { %s::<%s>(); r.check(\"impl available\", true); }" % (extra, derive, item, fn, ty)
        cases.append(Case("c%d" % len(cases), mod, meta={"src": "#[derive(%s)] %s" % (derive, item), "inst": ty}))
    # recursive generic types: the bound for the derived trait on a field type naming the deriving type itself can never be resolved
    for derive, item, ty in (
            ("Display", 'enum S<T> { Lit(T), #[display("-{_0}")] Neg(Box<S<T>>), #[display("({_0} + {_1})")] Add(Box<S<T>>, Box<S<T>>) }', "S<i32>"),
            ("Display", '#[display("{v}{}", next.as_ref().map(|n| n.to_string()).unwrap_or_default())] struct S<T> { v: T, next: Option<Box<S<T>>> }', "S<i32>"),
            ("Display", 'enum S<T, U> { #[display("{_0}")] A(T), #[display("{_0}|{_1}")] B(U, Box<S<T, U>>), #[display("x")] C(::core::marker::PhantomData<(T, U)>) }', "S<i32, i32>"),
            # ... only the parameters occurring in the recursive field's type are bounded: the other one stays free
            ("Display", 'enum S<T, U> { #[display("{_0}")] A(T), #[display("{_0}")] B(Box<S<T, u8>>), #[display("c")] C(U) }', "S<i32, NoFmt>"),
            ("Debug", 'struct S<T, U> { v: T, #[debug(skip)] st: U, next: Option<Box<S<T, u8>>> }', "S<i32, NoFmt>"),
            ("Debug", 'enum S<T, U, V> { Leaf(T), Node(Vec<S<T, u8, V>>), #[debug("k")] K(U), #[debug("{_0:?}")] L(V) }', "S<i32, NoFmt, i32>"),
            ("Debug", 'struct S<T> { v: T, next: Option<Box<S<T>>> }', "S<i32>"),
            # ... the deriving type spelled with a path from a path keyword (second reading of 4ff4ffb)
            ("Debug", 'struct S<T>(T, Option<Box<self::S<T>>>);', "S<i32>"),
            ("Debug", 'struct S<T, U> { v: T, #[debug(skip)] st: U, next: Option<Box<super::CUR::S<T, u8>>> }', "S<i32, NoFmt>"),
            ("Display", 'enum S<T> { #[display("{_0}")] Lit(T), #[display("-{_0}")] Neg(Box<self::S<T>>), #[display("({_0} + {_1})")] Add(Box<crate::CUR::S<T>>, Box<S<T>>) }', "S<i32>"),
            # ... behind a reference only (the reference is moved off the bound before the type is looked at: fifth reading, of fd8cc1f)
            ("Debug", "enum S<'a, T> { Nil, Cons(T, &'a self::S<'a, T>) }", "S<'static, i32>"),
            ("Debug", "struct S<'a, T>(T, (&'a self::S<'a, T>), Option<&'a S<'a, T>>);", "S<'static, i32>"),
            ("Debug", 'enum S<T> { Leaf(T), #[debug("node{_0:?}")] Node(Vec<S<T>>) }', "S<i32>")):
        fn = "assert_impl" if derive == "Display" else "assert_impl_debug"
        item = item.replace("CUR", "c%d" % len(cases))      # the module the engine puts this case in
        mod = "use super::*;\n#[derive(derive_more::%s)]\n%s\npub fn run(r: &mut R) { %s::<%s>(); r.check(\"impl available\", true); }" % (derive, item, fn, ty)
        cases.append(Case("c%d" % len(cases), mod, meta={"src": "#[derive(%s)] %s" % (derive, item), "inst": ty}))
    eng = CompileEngine("C04", prelude=PRELUDE, per_bin=max(8, len(cases) // 16 + 1))
    results = eng.run_cases(cases)
    for c in cases:
        r = results[c.cid]
        chk.count(states=1, transitions=1)
        if r.compile == "ok" and r.run == "ok":
            chk.outcome("B-compiles-and-available")
            continue
        msgs = sorted({re.sub(r"c\d+::", "", d["message"]) for d in r.diags})
        kind = "B-insufficient-or-excess"
        chk.outcome(kind)
        chk.violation("rustc: impl does not compile / is not available for %s: %s" % ("formatting-less unformatted parameters", msgs[0][:80] if msgs else r.detail[:80]),
                      c.meta["src"] + "   // instantiated as " + c.meta["inst"], "; ".join(msgs[:4]))
    chk.part("B_rustc", programs=len(cases), bins_built=eng.bins_built, rounds=eng.rounds, build_s=round(eng.build_s, 1),
             oracle="the generic impl type-checks with no user bounds (sufficiency); with every unformatted parameter = NoFmt (implements no fmt trait) and every formatted one = i32 the type still implements the derived trait (non-excess)")
    chk.assumptions += ["a reference counts as inferable when it is a named placeholder, a positional placeholder whose argument is a bare field identifier, or an alias of a bare field identifier; expression arguments come with a user bound(..)",
                        "bounds are compared as sets of whitespace-free predicate texts"]
