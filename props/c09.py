"""C09 - Error::source returns exactly the field the documented rules select (DESIGN.md §3 C09)."""
import itertools
import re

from common import svc
from compile_engine import Case, CompileEngine

ATTRS = {
    "": dict(src=None, bt=None, ign=False),
    "source": dict(src=True, bt=None, ign=False),
    "not(source)": dict(src=False, bt=None, ign=False),
    "backtrace": dict(src=None, bt=True, ign=False),
    "not(backtrace)": dict(src=None, bt=False, ign=False),
    "ignore": dict(src=None, bt=None, ign=True),
    "source, backtrace": dict(src=True, bt=True, ign=False),
    # several parameters in one attribute, a `not(..)` group first (the order must not matter)
    "not(backtrace), source": dict(src=True, bt=False, ign=False),
    "not(source), backtrace": dict(src=False, bt=True, ign=False),
}
ATTRS_THOROUGH = {
    "source, not(backtrace)": dict(src=True, bt=False, ign=False),
    "backtrace, not(source)": dict(src=False, bt=True, ign=False),
}


class Amb(Exception):
    pass


def _select(fields, named, kind):
    n = len(fields)
    en = [i for i, f in enumerate(fields) if not ATTRS[f["attr"]]["ign"]]
    key = "src" if kind == "source" else "bt"
    explicit = [i for i in en if ATTRS[fields[i]["attr"]][key] is True]
    if len(explicit) > 1:
        raise Amb("multiple `%s` attributes" % kind)
    if explicit:
        return explicit[0]

    def default(f):
        isbt = f["ty"] == "bt"
        if named:
            return f["name"] in ("source", "r#source") if kind == "source" else (f["name"] == "backtrace" or isbt)
        if kind == "source":
            # error.md: "exactly one field that is not used as the backtrace": the sole field, unless it is taken for the backtrace by its
            # type's name (and not marked `not(backtrace)`)
            bta = ATTRS[f["attr"]]["bt"]
            # (a sole field marked `#[error(backtrace)]` is the source AND hands on its backtrace: the repository's own nightly tests -
            # unless it IS a `Backtrace`, `V(#[error(backtrace)] Backtrace)`: the pinned snapshot compiles that, with no source)
            return n == 1 and not (bta is not False and isbt)
        return isbt

    cands = [i for i in en if ATTRS[fields[i]["attr"]][key] is None and default(fields[i])]
    if len(cands) > 1:
        raise Amb("conflicting inferred `%s` fields" % kind)
    return cands[0] if cands else None


def model(fields, named):
    """Documented rule -> (source index | None, backtrace index | None); raises Amb for ambiguous layouts."""
    src = _select(fields, named, "source")
    bt = _select(fields, named, "backtrace")
    if src is None and not named and len(fields) == 2 and bt is not None:
        other = 1 - bt
        a = ATTRS[fields[other]["attr"]]
        if not a["ign"] and a["src"] is not False:
            src = other
    return src, bt


def layouts(nmax, with_bt=True):
    attrs = list(ATTRS)
    tys = ["err", "bt"] if with_bt else ["err"]
    for named in (False, True):
        for n in range(0, nmax + 1):
            if named:
                name_opts = []
                # `r#source` is the raw-identifier spelling of the very same field name (explored up to two fields)
                for combo in itertools.product(["source", "backtrace", "x"] + (["r#source"] if n <= 2 else []), repeat=n):
                    if combo.count("source") + combo.count("r#source") > 1 or combo.count("backtrace") > 1:
                        continue
                    name_opts.append([c if c != "x" else "x%d" % i for i, c in enumerate(combo)])
            else:
                name_opts = [[None] * n]
            for names in name_opts:
                for at in itertools.product(attrs, repeat=n):
                    for ty in itertools.product(tys, repeat=n):
                        yield named, [dict(name=names[i], attr=at[i], ty=ty[i]) for i in range(n)]


def field_src(f, i, tyname):
    a = "#[error(%s)] " % f["attr"] if f["attr"] else ""
    return "%s%s%s" % (a, (f["name"] + ": ") if f["name"] else "", tyname)


def item_text(named, fields, container, tyfn):
    fs = ", ".join(field_src(f, i, tyfn(f, i)) for i, f in enumerate(fields))
    body = ("{ %s }" % fs) if named else ("(%s)" % fs)
    if container == "struct":
        return "struct S %s%s" % (body, "" if named else ";")
    return "enum S { Pre, V %s, Post { other: i32 } }" % body


def observe_source(out, named, fields, container):
    """Reads the selected member off an expansion: index, None, or 'unrecognised'."""
    if "fn source" not in out:
        return None
    if container == "struct":
        m = re.search(r"Some \(self \. ((?:r#)?\w+) \. \w*as_dyn_error", out)
        if not m:
            return "unrecognised"
        name = m.group(1)
        if named:
            for i, f in enumerate(fields):
                if f["name"] == name:
                    return i
            return "unrecognised"
        return int(name)
    m = re.search(r"S :: V ([({])(.*?)[)}] => (?:derive_more :: core :: option :: Option :: )?Some \(source \. \w*as_dyn_error", out)
    if not m:
        # variant V may simply have no source arm
        return None if "S :: V" not in out.split("fn source")[1].split("fn provide")[0] else "unrecognised"
    parts = [p.strip() for p in m.group(2).split(",")]
    for i, p in enumerate(parts):
        if p.endswith("source") and (not named or p.split(":")[-1].strip() == "source"):
            # named: `name : source` ; tuple: `source`
            if named:
                fname = p.split(":")[0].strip()
                for j, f in enumerate(fields):
                    if f["name"] == fname:
                        return j
                return "unrecognised"
            return i
    return "unrecognised"


def classify(named, fields, want, got_kind):
    """Known-finding classes are decided by a precise predicate on the layout."""
    return None


PRELUDE = r'''
use ::std::error::Error as StdError;
pub fn adr<T: ?Sized>(x: &T) -> usize { x as *const T as *const u8 as usize }
macro_rules! errty { ($n:ident) => {
    #[derive(Debug)] pub struct $n(pub u32);
    impl ::core::fmt::Display for $n { fn fmt(&self, f: &mut ::core::fmt::Formatter<'_>) -> ::core::fmt::Result { write!(f, stringify!($n)) } }
    impl StdError for $n {}
    // decoy: an inherent method named like the helper trait method the expansion calls on the source field
    impl $n { #[allow(dead_code)] pub fn as_dyn_error(&self) -> &(dyn StdError + 'static) { &DECOY } }
} }
#[derive(Debug)] pub struct Decoy;
impl ::core::fmt::Display for Decoy { fn fmt(&self, f: &mut ::core::fmt::Formatter<'_>) -> ::core::fmt::Result { write!(f, "Decoy") } }
impl StdError for Decoy {}
pub static DECOY: Decoy = Decoy;
errty!(E0); errty!(E1); errty!(E2); errty!(E9);
pub type BoxErr = Box<dyn StdError + Send + Sync + 'static>;
// the four trait-object flavours the vendored `AsDynError` supports, holding an error that has a source of its own: `source()`
// of the deriving type must be the HELD error, not the held error's source
pub type BoxErrC0 = Box<dyn StdError + 'static>;
pub type BoxErrC1 = Box<dyn StdError + Send + 'static>;
pub type BoxErrC2 = Box<dyn StdError + Send + Sync + 'static>;
pub type BoxErrC3 = Box<dyn StdError + Send + Sync + ::core::panic::UnwindSafe + 'static>;
#[derive(Debug)] pub struct Mid(pub [u64; 2], pub E9);   // the inner error does not share the holder's address
impl ::core::fmt::Display for Mid { fn fmt(&self, f: &mut ::core::fmt::Formatter<'_>) -> ::core::fmt::Result { write!(f, "Mid") } }
impl StdError for Mid { fn source(&self) -> Option<&(dyn StdError + 'static)> { Some(&self.1) } }
pub fn src_adr(e: &dyn StdError) -> Option<usize> { e.source().map(|s| adr(s)) }
'''


def tyname_b(f, i, mode):
    if f["ty"] == "bt":
        return "::std::backtrace::Backtrace"
    if mode == "box":
        return "BoxErr"
    if mode.startswith("boxchain"):
        return "BoxErrC" + mode[-1]
    if mode == "generic":
        return "T%d" % i
    return "E%d" % i


def runtime_case(cid, named, fields, container, mode, want, shape="pre_post"):
    n = len(fields)
    gen = ""
    inst = ""
    if mode == "generic":
        gps = ["T%d" % i for i in range(n) if fields[i]["ty"] != "bt"]
        gen = "<%s>" % ", ".join(gps) if gps else ""
        inst = "<%s>" % ", ".join("E%d" % i for i in range(n) if fields[i]["ty"] != "bt") if gps else ""
    fs = ", ".join(field_src(f, i, tyname_b(f, i, mode)) for i, f in enumerate(fields))
    body = ("{ %s }" % fs) if named else ("(%s)" % fs)

    def val(i, f):
        if f["ty"] == "bt":
            return "::std::backtrace::Backtrace::disabled()"
        if mode.startswith("boxchain"):
            return "Box::new(Mid([7, 7], E9(%d)))" % i
        return "Box::new(E%d(%d))" % (i, i) if mode == "box" else "E%d(%d)" % (i, i)

    vals = [val(i, f) for i, f in enumerate(fields)]
    names = [f["name"] or str(i) for i, f in enumerate(fields)]
    if container == "struct":
        decl = "pub struct S%s %s%s" % (gen, body, "" if named else ";")
        ctor = ("S { %s }" % ", ".join("%s: %s" % (a, v) for a, v in zip(names, vals))) if named else "S(%s)" % ", ".join(vals)
        access = lambda i: "s.%s" % names[i]
        bind = ""
    else:
        decl = {"pre_post": "pub enum S%s { Pre, V %s, Post { other: i32 } }",
                "alone": "pub enum S%s { V %s }",
                "with_ignored": "pub enum S%s { V %s, #[error(ignore)] Ign(E9) }",
                "ignored_first": "pub enum S%s { #[error(ignore)] Ign { source: E9 }, V %s }",
                # an ignored variant stays ignored whatever its fields say
                "ignored_marked": "pub enum S%s { #[error(ignore)] Ign { #[error(source)] inner: E9 }, V %s, #[error(ignore)] Ign2(#[error(not(backtrace))] E9), #[error(ignore)] Ign3(#[error(source)] E9, u8) }",
                "two_sourced": "pub enum S%s { V %s, W { source: E9 } }"}[shape] % (gen, body)
        ctor = ("S::V { %s }" % ", ".join("%s: %s" % (a, v) for a, v in zip(names, vals))) if named else "S::V(%s)" % ", ".join(vals)
        pats = ["p%d" % i for i in range(n)]
        pat = ("S::V { %s }" % ", ".join("%s: %s" % (a, p) for a, p in zip(names, pats))) if named else "S::V(%s)" % ", ".join(pats)
        bind = "let (%s) = match &s { %s => (%s), _ => unreachable!() };" % (", ".join(pats) + ("," if n else ""), pat, ", ".join(pats) + ("," if n else ""))
        access = lambda i: "(*p%d)" % i
    if want is None:
        expect = "None"
    else:
        expect = "Some(adr(&**%s))" % ("&" + access(want)) if mode.startswith("box") else "Some(adr(&%s))" % access(want)
        if mode.startswith("box"):
            expect = "Some(adr(&*%s))" % access(want) if container == "struct" else "Some(adr(&**p%d))" % want
    lines = ["let s: S%s = %s;" % (inst, ctor), bind,
             'r.eq("source() is exactly the selected field", src_adr(&s), %s);' % expect]
    tf = inst if not inst else "::" + inst
    if container == "enum" and shape == "pre_post":
        lines.append('r.eq("other variants have no source", (src_adr(&S%s::Pre), src_adr(&S%s::Post { other: 1 })), (None, None));' % (tf, tf))
    elif container == "enum" and shape == "with_ignored":
        lines.append('r.eq("an ignored variant has no source", src_adr(&S%s::Ign(E9(9))), None);' % tf)
    elif container == "enum" and shape == "ignored_first":
        lines.append('r.eq("an ignored variant has no source", src_adr(&S%s::Ign { source: E9(9) }), None);' % tf)
    elif container == "enum" and shape == "ignored_marked":
        lines.append('r.eq("an ignored variant has no source, whatever attributes its fields carry", (src_adr(&S%s::Ign { inner: E9(9) }), src_adr(&S%s::Ign2(E9(9))), src_adr(&S%s::Ign3(E9(9), 1))), (None, None, None));' % (tf, tf, tf))
    elif container == "enum" and shape == "two_sourced":
        lines.append('{ let w = S%s::W { source: E9(9) }; let a = match &w { S::W { source } => adr(source), _ => unreachable!() }; r.eq("the sibling variant has its own source", src_adr(&w), Some(a)); }' % tf)
    disp = "impl%s ::core::fmt::Display for S%s { fn fmt(&self, f: &mut ::core::fmt::Formatter<'_>) -> ::core::fmt::Result { write!(f, \"S\") } }" % (gen, gen)
    dbg = "impl%s ::core::fmt::Debug for S%s { fn fmt(&self, f: &mut ::core::fmt::Formatter<'_>) -> ::core::fmt::Result { write!(f, \"S\") } }" % (gen, gen)
    mod = """use super::*;
#[derive(derive_more::Error)]
%s
%s
%s
pub fn run(r: &mut R) {
    %s
}""" % (decl, disp, dbg, "\n    ".join(l for l in lines if l))
    src = "#[derive(Error)] " + " ".join(decl.split())
    return Case(cid, mod, meta={"src": src, "mode": mode if shape == "pre_post" else mode + "/" + shape, "want": want})


def run(chk, tier):
    thorough = tier == "thorough"
    if thorough:
        ATTRS.update(ATTRS_THOROUGH)
    nmax = 3
    # ---------------- seam A: every layout through the real expander, in-process
    reqs, metas = [], []
    for named, fields in layouts(nmax):
        try:
            want = model(fields, named)
        except Amb as e:
            want = ("AMB", str(e))
        for container in ("struct", "enum"):
            item = item_text(named, fields, container, lambda f, i: ("my::Backtrace" if f["ty"] == "bt" else "E%d" % i))
            reqs.append({"derive": "Error", "item": item})
            metas.append((named, fields, container, want, item))
    res = svc(reqs)
    amb_count = 0
    for (named, fields, container, want, item), r in zip(metas, res):
        chk.count(states=1, transitions=1)
        has_ign = any(f["attr"] == "ignore" for f in fields)
        feat = "%s/%s/%s" % ("named" if named else "tuple", container, "ign" if has_ign else "noign")
        if isinstance(want, tuple) and want[0] == "AMB":
            amb_count += 1
            if r["k"] == "err":
                chk.outcome("rejected-ambiguous")
                continue
            chk.outcome("ambiguous-not-rejected/" + r["k"])
            chk.violation("ambiguous layout not rejected (%s) %s" % (r["k"], feat), item, "%s; outcome=%s %s" % (want[1], r["k"], r.get("msg", "")[:200]))
            continue
        wsrc, wbt = want
        if r["k"] != "ok":
            chk.outcome("unexpected-" + r["k"])
            chk.violation("supported layout %s: %s %s" % (r["k"], feat, (r.get("loc") or r.get("msg", ""))[:60]), item,
                          "model selects source=%s backtrace=%s but expansion gave %s: %s %s" % (wsrc, wbt, r["k"], r.get("msg", "")[:200], r.get("loc", "")))
            continue
        got = observe_source(r["out"], named, fields, container)
        if got == "unrecognised":
            raise Exception("cannot read the source member off the expansion of: %s\n%s" % (item, r["out"]))
        if got == wsrc:
            chk.outcome("agree/source=%s" % ("none" if wsrc is None else "field"))
            if wsrc is not None and has_ign:
                chk.sample({"item": item, "selected_field_index": wsrc, "seam": "in-process expansion"})
            continue
        chk.outcome("wrong-field")
        chk.violation("wrong source field %s" % feat, item, "documented rules select field %s, expansion uses field %s" % (wsrc, got))
    chk.part("A_inprocess", layouts=len(reqs), ambiguous_layouts=amb_count,
             space="struct and enum variant x named/tuple x 0..3 fields x 9 (thorough: 11) attribute choices per field x names {source, backtrace, other} x types {error, *::Backtrace}")
    # ---------------- seam B: run time, address identity (stable: layouts without a backtrace)
    cases = []
    nb = 3 if thorough else 2
    for named, fields in layouts(3, with_bt=False):
        try:
            wsrc, wbt = model(fields, named)
        except Amb:
            continue
        if wbt is not None or any(ATTRS[f["attr"]]["bt"] is True for f in fields):
            continue  # `provide` needs nightly
        n = len(fields)
        interesting = any(f["attr"] == "ignore" for f in fields) or wsrc is not None
        if n > nb and not (interesting and len({f["attr"] for f in fields}) > 1 and not thorough and n == 3 and sum(1 for f in fields if f["attr"]) <= 2):
            if not thorough:
                continue
        for container in ("struct", "enum"):
            modes = (["plain", "box", "generic"] + ["boxchain%d" % k for k in range(4)]) if (n <= 2 or thorough) else ["plain"]
            for mode in modes:
                if mode == "generic" and n == 0:
                    continue
                cases.append(runtime_case("c%d" % len(cases), named, fields, container, mode, wsrc))
                # sibling variants: none, an ignored one (after / before), one with a source of its own
                if container == "enum" and mode in ("plain", "generic") and (n <= 2 or thorough):
                    for shape in ("alone", "with_ignored", "ignored_first", "ignored_marked", "two_sourced"):
                        cases.append(runtime_case("c%d" % len(cases), named, fields, container, mode, wsrc, shape=shape))
    # (16 rustc processes run in parallel: the thorough tier's programs are kept small enough that they fit into memory together)
    eng = CompileEngine("C09", prelude=PRELUDE, per_bin=max(8, len(cases) // (64 if thorough else 16) + 1))
    results = eng.run_cases(cases)
    for c in cases:
        r = results[c.cid]
        chk.count(states=1, transitions=max(r.ncmp, 1))
        if r.compile == "ok" and r.run == "ok":
            chk.outcome("runtime-ok/" + c.meta["mode"])
            if c.meta["want"] is not None:
                chk.sample({"type": c.meta["src"], "source_is_field": c.meta["want"], "seam": "rustc + run time address identity"})
            continue
        chk.outcome("runtime-%s/%s" % (r.compile, r.run))
        if r.compile != "ok":
            msgs = sorted({re.sub(r"c\d+::", "", d["message"]) for d in r.diags})
            chk.violation("compile-error %s: %s" % (c.meta["mode"], msgs[0][:80]), c.meta["src"], "; ".join(msgs[:4]))
        else:
            chk.violation("wrong source at run time %s" % c.meta["mode"], c.meta["src"], r.detail)
    chk.part("B_runtime_stable", programs=len(cases), bins_built=eng.bins_built, rounds=eng.rounds, build_s=round(eng.build_s, 1),
             enum_shapes=["Pre / V / Post", "V alone", "V + ignored variant", "ignored variant + V", "ignored variants whose fields carry source / not(backtrace) attributes", "V + variant with its own source"], note="layouts without a detected backtrace (a `provide` method needs nightly); field types: distinct error types, Box<dyn Error+Send+Sync>, generic T: Error, and the four boxed trait-object flavours holding an error that itself has a source")
    # ---------------- seam B on nightly: layouts with a detected backtrace (their `provide` method needs an unstable feature)
    if thorough:
        ncases = []
        for named, fields in layouts(3, with_bt=True):
            if not any(f["ty"] == "bt" for f in fields) and not any("backtrace" in f["attr"] for f in fields):
                continue
            try:
                wsrc, wbt = model(fields, named)
            except Amb:
                continue
            if wbt is None:
                continue
            if fields[wbt]["ty"] != "bt":
                continue  # `provide_ref::<Backtrace>` needs the detected field to really be a Backtrace
            if wsrc is not None and fields[wsrc]["ty"] == "bt":
                continue  # a Backtrace is not an Error: selecting it as the source is the user's mistake
            if len(fields) == 3 and sum(1 for f in fields if f["attr"]) > 1:
                continue
            for container in ("struct", "enum"):
                ncases.append(runtime_case("n%d" % len(ncases), named, fields, container, "plain", wsrc))
        neng = CompileEngine("C09", prelude=PRELUDE, toolchain="nightly", crate_attrs="#![feature(error_generic_member_access)]\n", per_bin=max(8, len(ncases) // 16 + 1))
        nres = neng.run_cases(ncases)
        for c in ncases:
            r = nres[c.cid]
            chk.count(states=1, transitions=max(r.ncmp, 1))
            if r.compile == "ok" and r.run == "ok":
                chk.outcome("runtime-ok/backtrace-layout")
                continue
            chk.outcome("runtime-%s/%s/backtrace-layout" % (r.compile, r.run))
            if r.compile != "ok":
                msgs = sorted({re.sub(r"n\d+::", "", d["message"]) for d in r.diags})
                chk.violation("compile-error backtrace layout: %s" % msgs[0][:80], c.meta["src"], "; ".join(msgs[:4]))
            else:
                chk.violation("wrong source at run time (backtrace layout)", c.meta["src"], r.detail)
        chk.part("B_runtime_nightly", programs=len(ncases), bins_built=neng.bins_built, note="layouts with a detected backtrace, built with cargo +nightly and #![feature(error_generic_member_access)]")
    chk.assumptions += ["inference by field count uses all declared fields (an ignored field still counts towards 'sole field of a tuple type')",
                        "layouts with a detected backtrace are decided through the in-process expansion only (their `provide` method needs a nightly compiler)"]
