"""C20 - every feature works on its own, with and without std (DESIGN.md §3 C20).

Configuration-space exploration of the feature lattice: all 24 singles (quick) plus all 276 pairs and `full`
(thorough), each with and without `std`.  Per configuration: both crates build; a probe crate importing every
derive and helper type (one `use` per line) must fail to resolve exactly the items of the disabled features;
and (thorough: singles and full) the repository's own test program for the feature passes."""
import itertools
import json
import os
import re
import shutil
import subprocess
from concurrent.futures import ThreadPoolExecutor

from common import MachineryError, REPO, TARGET, WORK, base_env, inproc_bin

HELPERS = {  # helper types of the facade crate -> features whose derives return / mention them (README / doc; `#[mul(forward)]` on an
             # enum returns Result<_, BinaryError> exactly as derive(Add) does)
    "BinaryError": ["add", "mul"], "WrongVariantError": ["add", "mul"], "UnitError": ["add", "mul", "not"], "FromStrError": ["from_str"],
    "TryFromReprError": ["try_from"], "TryIntoError": ["try_into"], "TryUnwrapError": ["try_unwrap"],
}


def feature_table():
    exe = inproc_bin()
    out = subprocess.run([exe, "derives"], stdout=subprocess.PIPE, text=True, env=base_env(), check=True).stdout
    derives = [json.loads(l) for l in out.splitlines() if l.strip()]
    feats = sorted({d["feature"] for d in derives})
    return derives, feats


def test_targets():
    """[[test]] name -> required features, read from the working tree's Cargo.toml"""
    text = open(os.path.join(REPO, "Cargo.toml")).read()
    out = {}
    for m in re.finditer(r"\[\[test\]\]\s*name = \"([^\"]+)\"\s*path = \"([^\"]+)\"\s*required-features = \[([^\]]*)\]", text):
        out[m.group(1)] = [f.strip().strip('"') for f in m.group(3).split(",") if f.strip()]
    return out


def cargo(args, cwd, tdir, timeout=1800):
    env = base_env()
    env["CARGO_TARGET_DIR"] = tdir
    p = subprocess.run(["cargo"] + args, cwd=cwd, env=env, stdout=subprocess.PIPE, stderr=subprocess.PIPE, text=True, timeout=timeout)
    return p


def probe_crate(dirpath, feats, std, derives):
    shutil.rmtree(dirpath, ignore_errors=True)
    os.makedirs(os.path.join(dirpath, "src"))
    fl = list(feats) + (["std"] if std else [])
    with open(os.path.join(dirpath, "Cargo.toml"), "w") as f:
        f.write('[package]\nname = "c20probe"\nversion = "0.0.0"\nedition = "2021"\n[workspace]\n[dependencies]\nderive_more = { path = "%s", default-features = false, features = [%s] }\n' % (
            REPO, ", ".join('"%s"' % x for x in fl)))
    shutil.copy(os.path.join(REPO, "Cargo.lock"), os.path.join(dirpath, "Cargo.lock"))
    lines = ["#![allow(unused_imports)]", "#![no_std]"]
    items = []
    for d in derives:
        items.append((d["name"], [d["feature"]], "derive_more::%s" % d["name"]))
        items.append((d["name"], [d["feature"]], "derive_more::derive::%s" % d["name"]))
        items.append((d["name"], [d["feature"]], "derive_more::with_trait::%s" % d["name"]))
    for h, fs in HELPERS.items():
        items.append((h, fs, "derive_more::%s" % h))
    for k, (name, fs, path) in enumerate(items):
        lines.append("pub use %s as _i%d;" % (path, k))
    with open(os.path.join(dirpath, "src", "lib.rs"), "w") as f:
        f.write("\n".join(lines) + "\n")
    return items


_USAGE = None

# derives whose C01 programs lean on a second derive_more derive (Sum on Add, Error on Display, ...): the companion impl is written by hand
_DISP = "impl ::core::fmt::Display for Sx { fn fmt(&self, f: &mut ::core::fmt::Formatter<'_>) -> ::core::fmt::Result { f.write_str(\"e\") } }"
EXTRA_USAGE = {
    "Sum": ["#[derive(derive_more::Sum)] pub struct Sx(H<(), 1>, H<(), 1>);\nimpl ::core::ops::Add for Sx { type Output = Sx; fn add(self, o: Sx) -> Sx { Sx(self.0 + o.0, self.1 + o.1) } }\npub fn run() -> Sx { ::core::iter::empty::<Sx>().sum() }",
            "#[derive(derive_more::Sum)] pub struct Sx { a: H<(), 1> }\nimpl ::core::ops::Add for Sx { type Output = Sx; fn add(self, o: Sx) -> Sx { Sx { a: self.a + o.a } } }"],
    "Sum+": ["#[derive(derive_more::Sum)] pub struct Sx<T>(T, T);\nimpl<T: ::core::ops::Add<Output = T>> ::core::ops::Add for Sx<T> { type Output = Sx<T>; fn add(self, o: Sx<T>) -> Sx<T> { Sx(self.0 + o.0, self.1 + o.1) } }\npub fn run() -> Sx<H<(), 1>> { ::core::iter::empty::<Sx<H<(), 1>>>().sum() }"],
    "Product+": ["#[derive(derive_more::Product)] pub struct Sx<T> { a: T }\nimpl<T: ::core::ops::Mul<Output = T>> ::core::ops::Mul for Sx<T> { type Output = Sx<T>; fn mul(self, o: Sx<T>) -> Sx<T> { Sx { a: self.a * o.a } } }\npub fn run() -> Sx<H<(), 1>> { ::core::iter::empty::<Sx<H<(), 1>>>().product() }"],
    "DerefMut+": ["#[derive(derive_more::DerefMut)] pub struct Sx<'a, T: 'a, const N: usize>(H<&'a T, N>);\nimpl<'a, T: 'a, const N: usize> ::core::ops::Deref for Sx<'a, T, N> { type Target = H<&'a T, N>; fn deref(&self) -> &Self::Target { &self.0 } }"],
    "IndexMut+": ["#[derive(derive_more::IndexMut)] pub struct Sx<T, const N: usize>(H<T, N>);\nimpl<T, const N: usize, I> ::core::ops::Index<I> for Sx<T, N> where H<T, N>: ::core::ops::Index<I> { type Output = <H<T, N> as ::core::ops::Index<I>>::Output; fn index(&self, i: I) -> &Self::Output { &self.0[i] } }"],
    "Error+": ["#[derive(derive_more::Error)] #[derive(Debug)] pub struct Sx<T> { source: T, other: u8 }\nimpl<T> ::core::fmt::Display for Sx<T> { fn fmt(&self, f: &mut ::core::fmt::Formatter<'_>) -> ::core::fmt::Result { f.write_str(\"e\") } }",
               "#[derive(derive_more::Error)] #[derive(Debug)] pub enum Sx<T, U> { Aa(T), B { source: U }, Cc }\nimpl<T, U> ::core::fmt::Display for Sx<T, U> { fn fmt(&self, f: &mut ::core::fmt::Formatter<'_>) -> ::core::fmt::Result { f.write_str(\"e\") } }"],
    "Product": ["#[derive(derive_more::Product)] pub struct Sx(H<(), 1>, H<(), 1>);\nimpl ::core::ops::Mul for Sx { type Output = Sx; fn mul(self, o: Sx) -> Sx { Sx(self.0 * o.0, self.1 * o.1) } }\npub fn run() -> Sx { ::core::iter::empty::<Sx>().product() }"],
    "DerefMut": ["#[derive(derive_more::DerefMut)] pub struct Sx(H<(), 1>);\nimpl ::core::ops::Deref for Sx { type Target = H<(), 1>; fn deref(&self) -> &H<(), 1> { &self.0 } }",
                 "#[derive(derive_more::DerefMut)] #[deref_mut(forward)] pub struct Sx(H<(), 1>);\nimpl ::core::ops::Deref for Sx { type Target = [u8; 1]; fn deref(&self) -> &[u8; 1] { &self.0 } }",
                 "#[derive(derive_more::DerefMut)] pub struct Sx { #[deref_mut] a: H<(), 1>, b: u8 }\nimpl ::core::ops::Deref for Sx { type Target = H<(), 1>; fn deref(&self) -> &H<(), 1> { &self.a } }"],
    "IndexMut": ["#[derive(derive_more::IndexMut)] pub struct Sx(H<(), 1>);\nimpl<I> ::core::ops::Index<I> for Sx where H<(), 1>: ::core::ops::Index<I> { type Output = <H<(), 1> as ::core::ops::Index<I>>::Output; fn index(&self, i: I) -> &Self::Output { &self.0[i] } }",
                 "#[derive(derive_more::IndexMut)] pub struct Sx { #[index_mut] a: H<(), 1>, b: u8 }\nimpl<I> ::core::ops::Index<I> for Sx where H<(), 1>: ::core::ops::Index<I> { type Output = <H<(), 1> as ::core::ops::Index<I>>::Output; fn index(&self, i: I) -> &Self::Output { &self.a[i] } }"],
    "Error": ["#[derive(derive_more::Error)] #[derive(Debug)] pub struct Sx(H<(), 1>);\n" + _DISP,
              "#[derive(derive_more::Error)] #[derive(Debug)] pub struct Sx { source: H<(), 1>, other: u8 }\n" + _DISP,
              "#[derive(derive_more::Error)] #[derive(Debug)] pub struct Sx(#[error(ignore)] u8, #[error(source)] H<(), 1>);\n" + _DISP,
              "#[derive(derive_more::Error)] #[derive(Debug)] pub enum Sx { Aa(H<(), 1>), B { source: H<(), 1>, fx: u8 }, #[error(ignore)] Ig(H<(), 1>), Cc }\n" + _DISP,
              "#[derive(derive_more::Error)] #[derive(Debug)] pub struct Sx;\n" + _DISP,
              # trait-object sources of every flavour the vendored `AsDynError` supports
              "#[derive(derive_more::Error)] #[derive(Debug)] pub struct Sx { source: Box<dyn ::core::error::Error + 'static> }\n" + _DISP,
              "#[derive(derive_more::Error)] #[derive(Debug)] pub struct Sx { source: Box<dyn ::core::error::Error + Send + 'static> }\n" + _DISP,
              "#[derive(derive_more::Error)] #[derive(Debug)] pub struct Sx { source: Box<dyn ::core::error::Error + Send + Sync + 'static> }\n" + _DISP,
              "#[derive(derive_more::Error)] #[derive(Debug)] pub struct Sx { source: Box<dyn ::core::error::Error + Send + Sync + ::core::panic::UnwindSafe + 'static> }\n" + _DISP],
}


def usage_modules():
    """derive name -> list of module texts (from C01's supported-shape space: plain and fully generic instantiations)
    that mention no other derive_more derive, so that they are meaningful with that derive's feature alone."""
    global _USAGE
    if _USAGE is None:
        import c01
        tab, gens, cases, metas, reqs = c01.build(False)
        _USAGE = {}
        for c in cases:
            m = c.meta
            if m["deco"] != "none" or m["raw"] or m["gen"] not in ("none", "full"):
                continue
            used = set(re.findall(r"derive_more::(\w+)", c.module))
            if used != {m["derive"]}:
                continue
            _USAGE.setdefault(m["derive"], []).append(c.module)
        for d, mods in EXTRA_USAGE.items():
            _USAGE.setdefault(d.rstrip("+"), []).extend("#[allow(unused_imports)] use super::*;\n" + m for m in mods)
        missing = [d for d in tab if not _USAGE.get(d)]
        if missing:
            raise MachineryError("no usage program for derives: %s" % missing)
    return _USAGE


def usage_crate(dirpath, feats, std, derives):
    """A crate applying every derive of the enabled features to supported inputs; returns number of derive applications."""
    import c01
    shutil.rmtree(dirpath, ignore_errors=True)
    os.makedirs(os.path.join(dirpath, "src"))
    fl = list(feats) + (["std"] if std else [])
    with open(os.path.join(dirpath, "Cargo.toml"), "w") as f:
        f.write('[package]\nname = "c20use"\nversion = "0.0.0"\nedition = "2021"\n[workspace]\n[dependencies]\nderive_more = { path = "%s", default-features = false, features = [%s] }\n' % (
            REPO, ", ".join('"%s"' % x for x in fl)))
    shutil.copy(os.path.join(REPO, "Cargo.lock"), os.path.join(dirpath, "Cargo.lock"))
    um = usage_modules()
    parts = ["#![allow(unused, dead_code, non_camel_case_types)]\n", c01.PRELUDE]
    n = 0
    for d in derives:
        if d["feature"] not in feats:
            continue
        for k, mod in enumerate(um.get(d["name"], [])):
            # through each of the three documented paths of the derive macro
            for pi, path in enumerate(("derive_more::", "derive_more::with_trait::", "derive_more::derive::")):
                text = mod.replace("#[derive(derive_more::%s)]" % d["name"], "#[derive(%s%s)]" % (path, d["name"]))
                parts.append("pub mod u_%s_%d_%d {\n%s\n}\n" % (d["name"].lower(), k, pi, text))
                n += 1
    # the helper error types of the enabled features: Debug + Display always, std::error::Error with the `std` feature (as under `full`)
    generic = ("TryFromReprError", "TryIntoError", "TryUnwrapError")
    hl = ["pub mod helper_traits {", "    fn fmt_ok<T: ::core::fmt::Debug + ::core::fmt::Display>() {}", "    fn err_ok<T: ::std::error::Error>() {}", "    pub fn all() {"]
    for h, fs in sorted(HELPERS.items()):
        if any(x in feats for x in fs):
            ty = "derive_more::%s%s" % (h, "<u8>" if h in generic else "")
            hl.append("        fmt_ok::<%s>();" % ty)
            if std:
                hl.append("        err_ok::<%s>();" % ty)
    hl += ["    }", "}"]
    parts.append("\n".join(hl) + "\n")
    with open(os.path.join(dirpath, "src", "lib.rs"), "w") as f:
        f.write("".join(parts))
    return n


# Self-contained inputs for a crate that is itself `#![no_std]` (no `extern crate alloc`, no `extern crate std`): what a user of the
# `default-features = false` configuration writes.  Prerequisite impls are written by hand so that each module needs one feature only.
_OPS = {"Add": "add", "Sub": "sub", "BitAnd": "bitand", "BitOr": "bitor", "BitXor": "bitxor"}
_MULS = {"Mul": "mul", "Div": "div", "Rem": "rem", "Shr": "shr", "Shl": "shl"}
_FMTS = {"Display": "display", "Binary": "binary", "Octal": "octal", "LowerHex": "lower_hex", "UpperHex": "upper_hex", "LowerExp": "lower_exp", "UpperExp": "upper_exp", "Pointer": "pointer"}


def nostd_inputs(name):
    d = "#[derive(derive_more::%s)] " % name
    disp = "impl ::core::fmt::Display for S { fn fmt(&self, f: &mut ::core::fmt::Formatter<'_>) -> ::core::fmt::Result { f.write_str(\"s\") } }"
    if name in _OPS or name in ("Not", "Neg"):
        return [d + "pub struct S(i8, i8);", d + "pub enum S { A(i8), B { x: i8 }, C }"]
    if name[:-6] in _OPS and name.endswith("Assign"):
        return [d + "pub struct S(i8, i8);"]
    if name in _MULS:
        return [d + "pub struct S(u8, u8);", d + "#[%s(forward)] pub struct S(u8);" % _MULS[name]]
    if name[:-6] in _MULS and name.endswith("Assign"):
        return [d + "pub struct S(u8, u8);"]
    if name == "Sum":
        return [d + "pub struct S(u8); impl ::core::ops::Add for S { type Output = S; fn add(self, o: S) -> S { S(self.0 + o.0) } }"]
    if name == "Product":
        return [d + "pub struct S(u8); impl ::core::ops::Mul for S { type Output = S; fn mul(self, o: S) -> S { S(self.0 * o.0) } }"]
    if name in ("AsRef", "AsMut"):
        return [d + "pub struct S(u8);", d + "#[%s(forward)] pub struct S([u8; 2]);" % ("as_ref" if name == "AsRef" else "as_mut"),
                d + "pub struct S(dyn ::core::fmt::Debug);"]     # (a trait-object field: the expansion goes through `__private::Same`)
    if name == "Constructor":
        return [d + "pub struct S { a: u8, b: i8 }"]
    if name == "Debug":
        return [d + "pub struct S { a: u8, #[debug(skip)] b: i8 }", d + "pub enum S { A(u8, u8), B { x: u8 }, C }"]
    if name in _FMTS:
        a = _FMTS[name]
        first = (d + "pub struct S(u8);") if name not in ("LowerExp", "UpperExp", "Pointer") else (d + ("pub struct S(f32);" if name != "Pointer" else "pub struct S(&'static u8);"))
        return [first, d + "#[%s(\"a{}b\", 1u8)] pub struct S;" % a, d + "pub enum S { #[%s(\"a\")] A, #[%s(\"{_0:?}\")] B(u8) }" % (a, a)] + ([d + "pub enum S { Aa, Bb }"] if name == "Display" else [])
    if name == "Deref":
        return [d + "pub struct S(u8);", d + "#[deref(forward)] pub struct S(&'static u8);"]
    if name == "DerefMut":
        return [d + "pub struct S(u8); impl ::core::ops::Deref for S { type Target = u8; fn deref(&self) -> &u8 { &self.0 } }"]
    if name == "Error":
        return [d + "#[derive(Debug)] pub struct S; " + disp, d + "#[derive(Debug)] pub struct S { source: ::core::fmt::Error } " + disp]
    if name == "From":
        return [d + "pub struct S(u8, i8);", d + "pub enum S { A(u8), B { x: i8 }, C }", d + "#[from(forward)] pub struct S(u16);"]
    if name == "FromStr":
        return [d + "pub struct S(u8);", d + "pub enum S { Foo, Bar, FOO }"]
    if name == "Index":
        return [d + "pub struct S([u8; 2]);"]
    if name == "IndexMut":
        return [d + "pub struct S([u8; 2]); impl<I> ::core::ops::Index<I> for S where [u8; 2]: ::core::ops::Index<I> { type Output = <[u8; 2] as ::core::ops::Index<I>>::Output; fn index(&self, i: I) -> &Self::Output { &self.0[i] } }"]
    if name == "Into":
        return [d + "pub struct S(u8, i8);", d + "#[into(owned, ref, ref_mut)] pub struct S { a: u8 }", d + "#[into(ref, ref_mut)] pub struct S(*const dyn ::core::fmt::Debug, u8);"]
    if name == "IntoIterator":
        return [d + "#[into_iterator(owned, ref, ref_mut)] pub struct S([u8; 2]);", d + "#[into_iterator(ref, ref_mut)] pub struct S([&'static dyn ::core::fmt::Debug; 2]);"]
    if name == "IsVariant":
        return [d + "pub enum S { A(u8), B { x: i8 }, C }"]
    if name in ("Unwrap", "TryUnwrap"):
        a = "unwrap" if name == "Unwrap" else "try_unwrap"
        return [d + "#[%s(ref, ref_mut)] pub enum S { A(u8), B(i8, u8), C }" % a, d + "#[%s(ref, ref_mut)] pub enum S { A(*const dyn ::core::fmt::Debug), B(&'static dyn ::core::fmt::Debug, u8), C }" % a]
    if name == "TryFrom":
        return [d + "#[try_from(repr)] #[repr(u8)] pub enum S { A = 1, B, C(u8) }"]
    if name == "TryInto":
        return [d + "#[try_into(owned, ref, ref_mut)] pub enum S { A(u8), B(i8, u8), C }", d + "#[try_into(ref, ref_mut)] pub enum S { A(*const dyn ::core::fmt::Debug), B(i8, u8), C }"]
    raise MachineryError("no #![no_std] input for derive %s" % name)


def nostd_crate(dirpath, feats, derives):
    shutil.rmtree(dirpath, ignore_errors=True)
    os.makedirs(os.path.join(dirpath, "src"))
    with open(os.path.join(dirpath, "Cargo.toml"), "w") as f:
        f.write('[package]\nname = "c20nostd"\nversion = "0.0.0"\nedition = "2021"\n[workspace]\n[dependencies]\nderive_more = { path = "%s", default-features = false, features = [%s] }\n' % (
            REPO, ", ".join('"%s"' % x for x in feats)))
    shutil.copy(os.path.join(REPO, "Cargo.lock"), os.path.join(dirpath, "Cargo.lock"))
    parts = ["#![no_std]\n#![allow(unused, dead_code)]\n"]
    n = 0
    for d in derives:
        if d["feature"] not in feats:
            continue
        for k, item in enumerate(nostd_inputs(d["name"])):
            parts.append("pub mod n_%s_%d { %s }\n" % (d["name"].lower(), k, item))
            n += 1
    with open(os.path.join(dirpath, "src", "lib.rs"), "w") as f:
        f.write("".join(parts))
    return n


def trait_probe(worker, feats, std, derives, tdir):
    """Which `derive_more::with_trait::<Name>` are usable in trait position in this configuration (set of names)."""
    d = os.path.join(WORK, "c20t-%d" % worker)
    shutil.rmtree(d, ignore_errors=True)
    os.makedirs(os.path.join(d, "src"))
    fl = list(feats) + (["std"] if std else [])
    with open(os.path.join(d, "Cargo.toml"), "w") as f:
        f.write('[package]\nname = "c20trait"\nversion = "0.0.0"\nedition = "2021"\n[workspace]\n[dependencies]\nderive_more = { path = "%s", default-features = false, features = [%s] }\n' % (
            REPO, ", ".join('"%s"' % x for x in fl)))
    shutil.copy(os.path.join(REPO, "Cargo.lock"), os.path.join(d, "Cargo.lock"))
    names = [x["name"] for x in derives]
    with open(os.path.join(d, "src", "lib.rs"), "w") as f:
        f.write("#![allow(unused)]\n" + "".join("pub fn t%d<T: ?Sized + derive_more::with_trait::%s>() {}\n" % (k, n) for k, n in enumerate(names)))
    p = cargo(["check", "--offline", "--message-format=json", "-q"], d, tdir)
    bad = set()
    for line in p.stdout.splitlines():
        if not line.startswith("{"):
            continue
        m = json.loads(line)
        if m.get("reason") != "compiler-message" or m["message"]["level"] != "error":
            continue
        code = (m["message"].get("code") or {}).get("code")
        ln = next((sp["line_start"] for sp in m["message"]["spans"] if sp["is_primary"]), None)
        # E0404 expected trait, found derive macro; E0405 cannot find trait; E0433/E0432 unresolved path.  E0107 (missing generic
        # arguments) means the name IS a trait.
        if ln is not None and code in ("E0404", "E0405", "E0433", "E0432", "E0412"):
            bad.add(names[ln - 2])
    shutil.rmtree(d, ignore_errors=True)
    return {n for n in names if n not in bad}


def check_config(worker, feats, std, derives, do_tests, tests, clean=False, trait_ref=None):
    """Returns list of (kind, detail) problems and number of cargo steps."""
    tdir = os.path.join(TARGET, "features-%d" % worker)
    fl = ",".join(feats)
    problems = []
    steps = 0
    # 1. proc-macro crate
    p = cargo(["check", "--offline", "--locked", "-q", "-p", "derive_more-impl", "--no-default-features", "--features", fl], REPO, tdir)
    steps += 1
    if p.returncode != 0:
        problems.append(("derive_more-impl does not build", last_error(p.stderr)))
    # 2. facade
    p = cargo(["check", "--offline", "--locked", "-q", "-p", "derive_more", "--no-default-features", "--features", fl + (",std" if std else "")], REPO, tdir)
    steps += 1
    if p.returncode != 0:
        problems.append(("derive_more does not build", last_error(p.stderr)))
    # 3. exposure probe
    pdir = os.path.join(WORK, "c20-%d" % worker)
    items = probe_crate(pdir, feats, std, derives)
    p = cargo(["check", "--offline", "--message-format=json", "-q"], pdir, tdir)
    steps += 1
    unresolved = set()
    other = []
    for line in p.stdout.splitlines():
        if not line.startswith("{"):
            continue
        m = json.loads(line)
        if m.get("reason") != "compiler-message" or m["message"]["level"] != "error":
            continue
        msg = m["message"]
        if m.get("target", {}).get("name") != "c20probe":
            other.append(msg["message"])
            continue
        ln = next((s["line_start"] for s in msg["spans"] if s["is_primary"]), None)
        if msg["message"].startswith("aborting") or ln is None:
            continue
        if "unresolved import" in msg["message"] or "no `" in msg["message"]:
            unresolved.add(ln - 3)   # two header lines, 1-based
        else:
            other.append(msg["message"])
    if other:
        problems.append(("probe: unexpected error", other[0][:200]))
    expected = {k for k, (name, fs, path) in enumerate(items) if not any(f in feats for f in fs)}
    if unresolved != expected and not other:
        missing = sorted(items[k][2] for k in unresolved - expected)
        extra = sorted(items[k][2] for k in expected - unresolved)
        if missing:
            problems.append(("item of an enabled feature is not exposed", ", ".join(missing[:6])))
        if extra:
            problems.append(("item of a disabled feature is exposed", ", ".join(extra[:6])))
    # 3b. every derive of the enabled features applied to supported inputs: the expansions must type-check in this configuration
    udir = os.path.join(WORK, "c20u-%d" % worker)
    napps = usage_crate(udir, feats, std, derives)
    p = cargo(["check", "--offline", "--message-format=json", "-q"], udir, tdir)
    steps += 1
    uerrs = []
    for line in p.stdout.splitlines():
        if not line.startswith("{"):
            continue
        m = json.loads(line)
        if m.get("reason") == "compiler-message" and m["message"]["level"] == "error" and not m["message"]["message"].startswith("aborting"):
            uerrs.append(m["message"]["message"])
    if uerrs:
        problems.append(("a derive of an enabled feature does not compile in this configuration", " | ".join(sorted(set(uerrs))[:3])[:400]))
    elif p.returncode != 0:
        problems.append(("usage crate does not build", last_error(p.stderr)))
    shutil.rmtree(udir, ignore_errors=True)
    # 3b'. without `std`: the same in a crate that is itself `#![no_std]` and links neither std nor alloc explicitly
    if not std:
        ndir = os.path.join(WORK, "c20n-%d" % worker)
        nostd_crate(ndir, feats, derives)
        p = cargo(["check", "--offline", "--message-format=json", "-q"], ndir, tdir)
        steps += 1
        nerrs = []
        for line in p.stdout.splitlines():
            if not line.startswith("{"):
                continue
            m = json.loads(line)
            if m.get("reason") == "compiler-message" and m["message"]["level"] == "error" and not m["message"]["message"].startswith("aborting"):
                nerrs.append(m["message"]["message"])
        if nerrs:
            problems.append(("a derive of an enabled feature does not compile in a #![no_std] crate: " + re.sub(r"`[^`]*`", "`..`", sorted(set(nerrs))[0])[:70], " | ".join(sorted(set(nerrs))[:3])[:400]))
        elif p.returncode != 0:
            problems.append(("#![no_std] usage crate does not build", last_error(p.stderr)))
        shutil.rmtree(ndir, ignore_errors=True)
    # 3b''. without `std`: a FINAL artifact (staticlib, panic = abort, its own panic handler, no allocator) that merely depends on
    # derive_more with these features must link: the features must not drag `alloc` into every user (commit review of 0dc9fd2)
    if not std:
        adir = os.path.join(WORK, "c20a-%d" % worker)
        shutil.rmtree(adir, ignore_errors=True)
        os.makedirs(os.path.join(adir, "src"))
        with open(os.path.join(adir, "Cargo.toml"), "w") as f:
            f.write('[package]\nname = "c20art"\nversion = "0.0.0"\nedition = "2021"\n[lib]\ncrate-type = ["staticlib"]\n[workspace]\n[profile.dev]\npanic = "abort"\n[dependencies]\n'
                    'derive_more = { path = "%s", default-features = false, features = [%s] }\n' % (REPO, ", ".join('"%s"' % x for x in feats)))
        shutil.copy(os.path.join(REPO, "Cargo.lock"), os.path.join(adir, "Cargo.lock"))
        with open(os.path.join(adir, "src", "lib.rs"), "w") as f:
            f.write("#![no_std]\n#[allow(unused_imports)] use derive_more as _;\n#[panic_handler] fn ph(_: &core::panic::PanicInfo<'_>) -> ! { loop {} }\n#[no_mangle] pub extern \"C\" fn c20_entry() -> u32 { 7 }\n")
        p = cargo(["build", "--offline", "-q"], adir, tdir)
        steps += 1
        if p.returncode != 0:
            problems.append(("a #![no_std] final artifact without an allocator does not link: " + re.sub(r"`[^`]*`", "`..`", last_error(p.stderr))[:70], last_error(p.stderr)))
        shutil.rmtree(adir, ignore_errors=True)
    # 3c. names usable as traits through `derive_more::with_trait` are the same as under `full`
    if trait_ref is not None:
        got = trait_probe(worker, feats, std, derives, tdir)
        steps += 1
        for x in derives:
            if x["feature"] in feats and (x["name"] in got) != (x["name"] in trait_ref):
                problems.append(("`derive_more::with_trait::%s` is %s a trait in this configuration but %s under `full`" % (
                    x["name"], "not" if x["name"] in trait_ref else "", "is" if x["name"] in trait_ref else "is not"), x["name"]))
    # 4. the repository's own tests for the enabled features
    if do_tests:
        for t, req in sorted(tests.items()):
            if t == "compile_fail" or not req or not all(r in feats or (r == "std" and std) for r in req):
                continue
            p = cargo(["test", "--offline", "--locked", "-q", "-p", "derive_more", "--no-default-features", "--features", fl + (",std" if std else ""), "--test", t], REPO, tdir, timeout=3000)
            steps += 1
            if p.returncode != 0:
                problems.append(("repository test `%s` fails in this configuration" % t, last_error(p.stderr + p.stdout)))
    shutil.rmtree(pdir, ignore_errors=True)
    if clean:
        # keep the shared dependency builds (syn, quote, ...), drop this configuration's own artefacts (disk is limited)
        for sub in ("debug/deps", "debug/.fingerprint", "debug/incremental"):
            d = os.path.join(tdir, sub)
            if os.path.isdir(d):
                for name in os.listdir(d):
                    if name.startswith(("derive_more", "libderive_more", "c20probe", "libc20probe", "c20use", "libc20use", "c20nostd", "libc20nostd")) or re.match(r"^(lib)?(add|as_|constructor|debug|deref|display|error|from|index|into|is_variant|mul|not|sum|try_|unwrap|generics|lib|no_std|boats)", name):
                        path = os.path.join(d, name)
                        (shutil.rmtree if os.path.isdir(path) else os.remove)(path)
    return problems, steps


def last_error(text):
    errs = [l for l in text.splitlines() if l.startswith("error") or "FAILED" in l or "panicked" in l]
    return " | ".join(errs[:3])[:400] if errs else text[-300:]


def run(chk, tier):
    thorough = tier == "thorough"
    derives, feats = feature_table()
    if len(feats) != 24:
        raise MachineryError("expected 24 derive features, found %d" % len(feats))
    tests = test_targets()
    configs = []
    for f in feats:
        for std in (True, False):
            configs.append(((f,), std, thorough))
    if thorough:
        for a, b in itertools.combinations(feats, 2):
            for std in (True, False):
                configs.append(((a, b), std, False))
        for std in (True, False):
            configs.append((tuple(feats), std, True))
    # reference for the trait-position probe: the `full` configuration
    trait_ref = trait_probe(99, tuple(feats), True, derives, os.path.join(TARGET, "features-ref"))
    if len(trait_ref) < 20:
        raise MachineryError("trait-position reference under `full` looks wrong: %s" % sorted(trait_ref))
    P = 8
    chunks = [configs[i::P] for i in range(P)]

    def work(i):
        out = []
        for (fs, std, do_tests) in chunks[i]:
            out.append(((fs, std), check_config(i, fs, std, derives, do_tests, tests, clean=thorough, trait_ref=trait_ref)))
        return out

    with ThreadPoolExecutor(max_workers=P) as pool:
        results = [r for rs in pool.map(work, range(P)) for r in rs]
    for (fs, std), (problems, steps) in results:
        chk.count(states=1, transitions=steps)
        label = "%s%s" % ("+".join(fs) if len(fs) < 4 else "full", "" if std else " (no std)")
        if not problems:
            chk.outcome("ok/%d-features/%s" % (min(len(fs), 3), "std" if std else "no_std"))
            chk.sample({"features": list(fs) if len(fs) < 4 else "all 24", "std": std, "cargo_steps": steps, "verdict": "builds, exposes exactly its items, its derives expand to code that type-checks" + (", own tests pass" if steps > 4 else "")})
            continue
        for kind, detail in problems:
            chk.outcome("problem: " + kind)
            chk.violation("%s [%s]" % (kind, "std" if std else "no_std") + (": " + re.sub(r"[`'\"].*", "", detail)[:60] if "build" in kind else ""), "--no-default-features --features " + ",".join(fs) + (",std" if std else ""), detail)
    chk.part("lattice", configurations=len(configs), singles=len(feats), pairs=(len(feats) * (len(feats) - 1) // 2 if thorough else 0), with_and_without_std=True,
             probe_items=len(derives) * 3 + len(HELPERS), repository_tests_run_for="singles and full (thorough)" if thorough else "none (quick)",
             steps=["cargo check -p derive_more-impl", "cargo check -p derive_more", "probe crate: unresolved imports == items of disabled features",
                    "usage crate: every derive of the enabled features applied to C01's supported inputs type-checks; helper error types implement Debug + Display (+ std::error::Error with std)",
                    "trait probe: derive_more::with_trait::<Name> is usable as a trait iff it is under `full`", "cargo test --test <feature>"])
    chk.assumptions += ["which feature provides which helper type is transcribed from the README/doc (HELPERS table); derive -> feature comes from create_derive! in impl/src/lib.rs",
                        "`testing-helpers` is not a user-facing derive feature and is left out"]
