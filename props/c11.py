"""C11 - variant accessors agree with the value's variant and never lose data (DESIGN.md §3 C11)."""
import itertools

from compile_engine import Case, CompileEngine

PRELUDE = r'''
#[derive(Clone, Debug, PartialEq)] pub struct Fa(pub u32);
#[derive(Clone, Debug, PartialEq)] pub struct Fb(pub u32);
pub struct Absent;
pub fn is_absent<T: ::core::any::Any>(x: T) -> bool { (&x as &dyn ::core::any::Any).is::<Absent>() }
pub fn adr<T>(x: &T) -> usize { x as *const T as usize }
pub fn panics<T>(f: impl FnOnce() -> T) -> bool { ::std::panic::catch_unwind(::std::panic::AssertUnwindSafe(f)).is_err() }
pub struct Wrap<T, E>(pub ::core::marker::PhantomData<(T, E)>);
pub trait HasConv { fn has(&self) -> bool { true } }
impl<T: ::core::convert::TryFrom<E>, E> HasConv for Wrap<T, E> {}
pub trait HasNoConv { fn has(&self) -> bool { false } }
impl<T, E> HasNoConv for &Wrap<T, E> {}
// "if the conversion exists at all, what does it do": Some(result) through the impl when there is one, None otherwise
pub struct Via<T, E>(pub ::core::marker::PhantomData<(T, E)>);
pub trait DoConv<T, E> { fn conv(&self, e: E) -> Option<Result<T, E>>; }
impl<T: ::core::convert::TryFrom<E, Error = derive_more::TryIntoError<E>>, E> DoConv<T, E> for Via<T, E> {
    fn conv(&self, e: E) -> Option<Result<T, E>> { Some(T::try_from(e).map_err(|x| x.input)) }
}
pub trait NoConv<T, E> { fn conv(&self, _: E) -> Option<Result<T, E>> { None } }
impl<T, E> NoConv<T, E> for &Via<T, E> {}
'''

NAMES_DEFAULT = ["Foo", "FooBar", "Ab", "FooBarBaz"]
SNAKE_DEFAULT = ["foo", "foo_bar", "ab", "foo_bar_baz"]
RAW = {"names": ["r#Type", "r#fn", "r#Match"], "snake": ["type", "fn", "match"]}
# names outside the `(Upper lower+)+` form: stray underscores (no word of their own) and an acronym; `Self_` is the only way to call a
# variant "Self".  Expected names by the usual definition of snake_case: words are separated by underscores, by a lower-to-upper
# step and before the last capital of a run followed by a lower-case letter; empty words are dropped.
UNDERS = {"names": ["Self_", "_Hidden", "Two__Words", "HTTPServer"], "snake": ["self", "hidden", "two_words", "http_server"]}
KINDS = {
    "unit": (None, []),
    "t0": (False, []),     # `V()`: a tuple variant with an empty field list
    "n0": (True, []),      # `V {}`
    "t1a": (False, ["Fa"]),
    "t1b": (False, ["Fb"]),
    "t2": (False, ["Fa", "Fb"]),
    "t2s": (False, ["Fa", "Fa"]),
    "t3": (False, ["Fa", "Fb", "Fa"]),
    "t11": (False, ["Fa", "Fb"] * 5 + ["Fa"]),     # two-digit field positions
    "n1": (True, ["Fa"]),
    "n2": (True, ["Fa", "Fb"]),
}


GN = ["zeta", "_under", "alpha"]     # named fields: not in alphabetical order, one starting with `_`
SELS = [("ref",), ("ref_mut",), ("owned", "ref"), ("owned", "ref_mut"), ("ref", "ref_mut"), ("owned",)]   # besides none and all three


def tup(xs):
    return xs[0] if len(xs) == 1 else "(" + ", ".join(xs) + ")"


def gen_case(cid, kinds, cfg, generic):
    NAMES = cfg.get("names", NAMES_DEFAULT)
    SNAKE = cfg.get("snake", SNAKE_DEFAULT)
    PLAIN = [x[2:] if x.startswith("r#") else x for x in NAMES]
    refs = cfg.get("refs", False)
    sel = tuple(cfg["sel"]) if "sel" in cfg else (("owned", "ref", "ref_mut") if refs else None)   # enum-level selection
    sel_ref, sel_mut = bool(sel) and "ref" in sel, bool(sel) and "ref_mut" in sel
    sel_owned = sel is None or "owned" in sel    # what a TryInto selection without `owned` does for owned is not pinned by the docs
    ign = cfg.get("ignore", set())
    fign = cfg.get("field_ignore", {})
    vrefs = cfg.get("variant_refs", set())
    vmuts = cfg.get("variant_refmut", set())    # `#[unwrap(ref, ref_mut)]` on one variant (a subset of vrefs)
    # Unwrap/TryUnwrap do not support struct-like variants - unless every one of them is ignored (their values still are inputs)
    do_unwrap = all(KINDS[k][0] is not True or vi in ign for vi, k in enumerate(kinds))
    # coherence forbids `impl<T> TryFrom<E<T>> for T` (and `for &T`): generic enums derive TryInto unless a variant converts to the bare parameter
    gt = {tuple(t for fi, t in enumerate(KINDS[k][1]) if fi not in fign.get(vi, ())) for vi, k in enumerate(kinds) if vi not in ign}
    overlap = any(a != b and len(a) == len(b) and all(x == y or "Fa" in (x, y) for x, y in zip(a, b)) for a in gt for b in gt)   # `(T, Fb)` and `(T, T)` meet at T = Fb
    do_tryinto = not generic or (("Fa",) not in gt and not overlap)
    T = "T" if generic else "Fa"

    def ty(t):
        return T if t == "Fa" else t

    def cty(t):
        return t  # concrete instantiation T = Fa

    variants = []
    for vi, k in enumerate(kinds):
        named, tys = KINDS[k]
        attrs = []
        if vi in ign:
            attrs += ["#[is_variant(ignore)]"] + (["#[try_into(ignore)]"] if do_tryinto else []) + (["#[unwrap(ignore)]", "#[try_unwrap(ignore)]"] if do_unwrap else [])
        if vi in vrefs and do_unwrap:
            attrs += ["#[unwrap(ref, ref_mut)]", "#[try_unwrap(ref, ref_mut)]"] if vi in vmuts else ["#[unwrap(ref)]", "#[try_unwrap(ref)]"]
        if vi in vrefs and do_tryinto:
            attrs += ["#[try_into(owned, ref, ref_mut)]" if vi in vmuts else "#[try_into(owned, ref)]"]   # accepted at variant level like the selections of Unwrap: it must then have that effect
        if vi in cfg.get("variant_mut_only", set()) and do_unwrap:
            attrs += ["#[unwrap(ref_mut)]", "#[try_unwrap(ref_mut)]"]   # next to an enum-level `ref`: an addition, the inherited `ref` stays
        if vi in cfg.get("variant_owned", set()) and do_tryinto:
            attrs += ["#[try_into(owned)]"]
        if vi in cfg.get("enable_attr", set()):
            attrs += ["#[is_variant]"] + (["#[try_into(owned)]"] if do_tryinto else []) + (["#[unwrap(owned)]", "#[try_unwrap(owned)]"] if do_unwrap else [])
        fs = []
        for fi, t in enumerate(tys):
            fa = "#[try_into(ignore)] " if fi in fign.get(vi, ()) else ""
            fs.append(fa + (("%s: " % GN[fi]) if named else "") + ty(t))
        body = "" if named is None else (" { " + ", ".join(fs) + " }" if named else "(" + ", ".join(fs) + ")")
        variants.append(" ".join(attrs) + " " + NAMES[vi] + body)
    eattrs = []
    if refs and "sel" not in cfg:
        eattrs += (["#[try_into(owned, ref, ref_mut)]"] if do_tryinto else []) + (["#[unwrap(ref, ref_mut)]", "#[try_unwrap(ref, ref_mut)]"] if do_unwrap else [])
    elif sel:
        eattrs += (["#[try_into(%s)]" % ", ".join(sel)] if do_tryinto else []) + (["#[unwrap(%s)]" % ", ".join(sel), "#[try_unwrap(%s)]" % ", ".join(sel)] if do_unwrap else [])
    derives = ["IsVariant"] + (["TryInto"] if do_tryinto else []) + (["Unwrap", "TryUnwrap"] if do_unwrap else [])
    gdecl = "<T>" if generic else ""
    EE = "E<Fa>" if generic else "E"

    def val(vi, base):
        named, tys = KINDS[kinds[vi]]
        vals = ["%s(%d)" % (t, base + 10 * vi + fi) for fi, t in enumerate(tys)]
        if not tys:
            return "E::%s%s" % (NAMES[vi], "" if named is None else (" {}" if named else "()"))
        if named:
            return "E::%s { %s }" % (NAMES[vi], ", ".join("%s: %s" % (GN[fi], v) for fi, v in enumerate(vals)))
        return "E::%s(%s)" % (NAMES[vi], ", ".join(vals))

    def pat(vi, binds):
        named, tys = KINDS[kinds[vi]]
        if not tys:
            return "E::%s%s" % (NAMES[vi], "" if named is None else (" {}" if named else "()"))
        if named:
            return "E::%s { %s }" % (NAMES[vi], ", ".join("%s: %s" % (GN[fi], b) for fi, b in enumerate(binds)))
        return "E::%s(%s)" % (NAMES[vi], ", ".join(binds))

    L = []
    n = len(kinds)
    for i in range(n):
        L.append("let v%d: %s = %s;" % (i, EE, val(i, 100)))
    # addresses of the fields of each value (for reference forms)
    for i in range(n):
        named, tys = KINDS[kinds[i]]
        if tys:
            L.append("let fa%d: Vec<usize> = match &v%d { %s => vec![%s], _ => unreachable!() };" % (
                i, i, pat(i, ["b%d" % f for f in range(len(tys))]), ", ".join("adr(b%d)" % f for f in range(len(tys)))))
        else:
            L.append("let fa%d: Vec<usize> = vec![];" % i)
    for j in range(n):
        named_j, tys_j = KINDS[kinds[j]]
        sn = SNAKE[j]
        ctys = [cty(t) for t in tys_j]
        fields_j = ["%s(%d)" % (t, 100 + 10 * j + fi) for fi, t in enumerate(ctys)]
        if j in ign:
            # no accessor may exist for an ignored variant
            L.append("{ #[allow(dead_code)] trait P { fn is_%s(&self) -> Absent { Absent } } impl P for %s {} r.check(\"is_%s must not exist (ignored)\", is_absent(v0.is_%s())); }" % (sn, EE, sn, sn))
            if do_unwrap:
                L.append("{ #[allow(dead_code)] trait P { fn unwrap_%s(self) -> Absent where Self: Sized { Absent } fn try_unwrap_%s(self) -> Absent where Self: Sized { Absent } } impl P for %s {} r.check(\"unwrap_%s must not exist (ignored)\", is_absent(v0.clone().unwrap_%s())); r.check(\"try_unwrap_%s must not exist (ignored)\", is_absent(v0.clone().try_unwrap_%s())); }" % (sn, sn, EE, sn, sn, sn, sn))
            continue
        for i in range(n):
            same = "true" if i == j else "false"
            L.append('r.eq("is_%s on %s", v%d.is_%s(), %s);' % (sn, NAMES[i], i, sn, same))
            if not do_unwrap:
                continue
            want_ref = sel_ref or (j in vrefs)
            want_mut = sel_mut or (j in vmuts) or (j in cfg.get("variant_mut_only", set()))
            # (`#[unwrap(ref)]` on one variant ADDS `unwrap_x_ref` for it - unwrap.md / try_unwrap.md - and changes nothing for the others)
            if i == j:
                L.append('r.eq("unwrap_%s on own variant", v%d.clone().unwrap_%s(), %s);' % (sn, i, sn, tup(fields_j) if fields_j else "()"))
                L.append('r.eq("try_unwrap_%s on own variant", v%d.clone().try_unwrap_%s().ok(), Some(%s));' % (sn, i, sn, tup(fields_j) if fields_j else "()"))
                if tys_j:
                    k = len(tys_j)
                    binds = ["p%d" % f for f in range(k)]
                    if want_ref:
                        L.append('{ let %s = v%d.unwrap_%s_ref(); r.eq("unwrap_%s_ref returns the fields themselves", vec![%s], fa%d.clone()); }' % (
                            tup(binds), i, sn, sn, ", ".join("adr(%s)" % b for b in binds), i))
                        L.append('{ let %s = v%d.try_unwrap_%s_ref().ok().unwrap(); r.eq("try_unwrap_%s_ref returns the fields themselves", vec![%s], fa%d.clone()); }' % (
                            tup(binds), i, sn, sn, ", ".join("adr(%s)" % b for b in binds), i))
                    if want_mut:
                        L.append('{ let mut w = v%d.clone(); let want: Vec<usize> = match &w { %s => vec![%s], _ => unreachable!() }; let %s = w.unwrap_%s_mut(); r.eq("unwrap_%s_mut returns the fields themselves", vec![%s], want); }' % (
                            i, pat(i, ["b%d" % f for f in range(k)]), ", ".join("adr(b%d)" % f for f in range(k)), tup(binds), sn, sn,
                            ", ".join("adr(&*%s)" % b for b in binds)))
                        L.append('{ let mut w = v%d.clone(); let want: Vec<usize> = match &w { %s => vec![%s], _ => unreachable!() }; let %s = w.try_unwrap_%s_mut().ok().unwrap(); r.eq("try_unwrap_%s_mut returns the fields themselves", vec![%s], want); }' % (
                            i, pat(i, ["b%d" % f for f in range(k)]), ", ".join("adr(b%d)" % f for f in range(k)), tup(binds), sn, sn,
                            ", ".join("adr(&*%s)" % b for b in binds)))
                else:
                    if want_ref:
                        L.append('r.eq("unwrap_%s_ref on own unit variant", v%d.unwrap_%s_ref(), ());' % (sn, i, sn))
            else:
                L.append('r.check("unwrap_%s on %s must panic", panics(|| v%d.clone().unwrap_%s()));' % (sn, NAMES[i], i, sn))
                L.append('r.eq("try_unwrap_%s on %s returns the original", v%d.clone().try_unwrap_%s().err().map(|e| e.input), Some(v%d.clone()));' % (sn, NAMES[i], i, sn, i))
                if NAMES is NAMES_DEFAULT:
                    L.append('r.eq("try_unwrap_%s error text", v%d.clone().try_unwrap_%s().err().map(|e| e.to_string()), Some("Attempt to call `E::try_unwrap_%s()` on a `E::%s` value".to_string()));' % (sn, i, sn, sn, PLAIN[i]))
                if want_ref:
                    L.append('r.check("unwrap_%s_ref on %s must panic", panics(|| {{ let _ = v%d.unwrap_%s_ref(); }}));'.replace("{{", "{").replace("}}", "}") % (sn, NAMES[i], i, sn))
                    L.append('r.eq("try_unwrap_%s_ref error carries the very input", v%d.try_unwrap_%s_ref().err().map(|e| adr(e.input)), Some(adr(&v%d)));' % (sn, i, sn, i))
                if want_mut:
                    L.append('{ let mut w = v%d.clone(); let a = adr(&w); r.eq("try_unwrap_%s_mut error carries the very input", w.try_unwrap_%s_mut().err().map(|e| adr(&*e.input)), Some(a)); }' % (i, sn, sn))
                    L.append('{ let mut w = v%d.clone(); r.check("unwrap_%s_mut on %s must panic", panics(move || { let _ = w.unwrap_%s_mut(); })); }' % (i, sn, NAMES[i], sn))
    # TryInto: group by non-ignored field types
    def conv_tys(vi):
        named, tys = KINDS[kinds[vi]]
        return [cty(t) for fi, t in enumerate(tys) if fi not in fign.get(vi, ())]

    # `#[try_into]` on some variants whitelists them (try_into.md: "With #[try_into] or #[try_into(ignore)] it's possible to indicate which
    # variants you want"), wherever the attributed variants stand among ignored and un-attributed ones
    tign = set(ign) | ({vi for vi in range(n) if vi not in cfg["enable_attr"]} if cfg.get("enable_attr") else set())
    targets = []
    for vi in range(n):
        if vi in tign or not do_tryinto or vrefs:   # (with a variant-level selection the un-attributed variants are left undetermined by the docs)
            continue
        t = tuple(conv_tys(vi))
        if t not in targets:
            targets.append(t)
    for t in targets:
        tt = tup(list(t)) if t else "()"
        rt = (tup(["&" + x for x in t]) if t else "()")
        mt = (tup(["&mut " + x for x in t]) if t else "()")
        for i in range(n):
            named, tys = KINDS[kinds[i]]
            kept = [fi for fi in range(len(tys)) if fi not in fign.get(i, ())]
            ok = (i not in tign) and tuple(conv_tys(i)) == t
            if ok:
                vals = ["%s(%d)" % (cty(tys[fi]), 100 + 10 * i + fi) for fi in kept]
                if sel_owned:
                    L.append('r.eq("TryFrom<E> for %s from %s", <%s as ::core::convert::TryFrom<%s>>::try_from(v%d.clone()).ok(), Some(%s));' % (
                        tt, NAMES[i], tt, EE, i, tup(vals) if vals else "()"))
                binds = ["p%d" % f for f in range(len(kept))]
                if sel_ref and kept:
                    L.append('{ let %s = <%s as ::core::convert::TryFrom<&%s>>::try_from(&v%d).ok().unwrap(); r.eq("TryFrom<&E> yields the fields themselves", vec![%s], vec![%s]); }' % (
                        tup(binds), rt, EE, i, ", ".join("adr(%s)" % b for b in binds), ", ".join("fa%d[%d]" % (i, fi) for fi in kept)))
                if sel_mut and kept:
                    L.append('{ let mut w = v%d.clone(); let want: Vec<usize> = match &w { %s => vec![%s], _ => unreachable!() }; let %s = <%s as ::core::convert::TryFrom<&mut %s>>::try_from(&mut w).ok().unwrap(); r.eq("TryFrom<&mut E> yields the fields themselves", vec![%s], want); }' % (
                        i, pat(i, ["b%d" % f for f in range(len(tys))]), ", ".join("adr(b%d)" % fi for fi in kept), tup(binds), mt, EE,
                        ", ".join("adr(&*%s)" % b for b in binds)))
            else:
                if sel_owned:
                    L.append('r.eq("TryFrom<E> for %s from %s returns the original", <%s as ::core::convert::TryFrom<%s>>::try_from(v%d.clone()).err().map(|e| e.input), Some(v%d.clone()));' % (
                        tt, NAMES[i], tt, EE, i, i))
                if sel_ref:
                    L.append('r.eq("TryFrom<&E> error carries the very input", <%s as ::core::convert::TryFrom<&%s>>::try_from(&v%d).err().map(|e| adr(e.input)), Some(adr(&v%d)));' % (rt, EE, i, i))
                if sel_mut:
                    L.append('{ let mut w = v%d.clone(); let a = adr(&w); r.eq("TryFrom<&mut E> error carries the very input", <%s as ::core::convert::TryFrom<&mut %s>>::try_from(&mut w).err().map(|e| adr(&*e.input)), Some(a)); }' % (i, mt, EE))
    # a variant-level `#[try_into(owned, ref)]`: the shared-reference conversion exists for that variant's field types and yields the fields themselves
    if do_tryinto and vrefs:
        for vi in sorted(vrefs):
            named, tys = KINDS[kinds[vi]]
            kept = [fi for fi in range(len(tys)) if fi not in fign.get(vi, ())]
            if not kept:
                continue
            t = conv_tys(vi)
            rt = tup(["&" + x for x in t])
            binds = ["p%d" % f for f in range(len(kept))]
            L.append('{ let %s = <%s as ::core::convert::TryFrom<&%s>>::try_from(&v%d).ok().unwrap(); r.eq("variant-level try_into(ref): TryFrom<&E> yields the fields themselves", vec![%s], vec![%s]); }' % (
                tup(binds), rt, EE, vi, ", ".join("adr(%s)" % b for b in binds), ", ".join("fa%d[%d]" % (vi, fi) for fi in kept)))
    # whichever owned conversions exist (the documentation does not pin the defaults for every mix of enum-level and variant-level
    # selections): a `TryFrom<E> for X` that exists must succeed for EVERY non-ignored variant whose field types are X, with the fields
    # in order, and hand the original back for every other variant
    # (only where un-attributed variants certainly take part: an enabling attribute on SOME variants without an enum-level one makes the
    # derive opt-in, and the documentation does not say so for TryInto)
    # (... and not where a VARIANT selects reference kinds of its own for TryInto: the documentation knows the selection at the enum only, and
    # the kinds then differ per variant by construction)
    if do_tryinto and not generic and not cfg.get("variant_owned") and (sel or not (vrefs or cfg.get("enable_attr"))):
        all_t = []
        for vi in range(n):
            if vi not in ign and tuple(conv_tys(vi)) not in all_t:
                all_t.append(tuple(conv_tys(vi)))
        for t in all_t:
            tt = tup(list(t)) if t else "()"
            for i in range(n):
                named, tys = KINDS[kinds[i]]
                kept = [fi for fi in range(len(tys)) if fi not in fign.get(i, ())]
                ok = (i not in ign) and tuple(conv_tys(i)) == t
                vals = ["%s(%d)" % (cty(tys[fi]), 100 + 10 * i + fi) for fi in kept]
                want = ("Ok(%s)" % (tup(vals) if vals else "()")) if ok else ("Err(v%d.clone())" % i)
                L.append('{ let got = (&Via::<%s, %s>(::core::marker::PhantomData)).conv(v%d.clone()); r.check("if TryFrom<E> for %s exists it converts %s correctly", got.is_none() || got == Some(%s)); }' % (
                    tt, EE, i, tt, NAMES[i], want))
    # ignored variants contribute no conversion
    for vi in (ign if do_tryinto else ()):
        t = tuple(conv_tys(vi))
        if t not in targets and not any(tuple(conv_tys(v)) == t for v in range(n) if v not in ign):
            tt = tup(list(t)) if t else "()"
            L.append('r.check("no TryFrom<E> for %s (only an ignored variant has these field types)", !(&Wrap::<%s, %s>(::core::marker::PhantomData)).has());' % (tt, tt, EE))
    mod = """use super::*;
#[derive(Clone, Debug, PartialEq, %s)]
%s
pub enum E%s { %s }
pub fn run(r: &mut R) {
    %s
}""" % (", ".join("derive_more::" + d for d in derives), "\n".join(eattrs), gdecl, ", ".join(variants), "\n    ".join(L))
    src = "#[derive(%s)] %s enum E%s { %s }" % (", ".join(derives), " ".join(eattrs), gdecl, ", ".join(v.strip() for v in variants))
    return Case(cid, mod, meta={"kinds": kinds, "cfg": {k: (sorted(v) if isinstance(v, set) else v) for k, v in cfg.items() if k != "snake"}, "generic": generic, "src": src})


def run(chk, tier):
    thorough = tier == "thorough"
    kinds_alpha = ["unit", "t1a", "t1b", "t2", "t2s", "n1", "n2"] + (["t3"] if thorough else [])
    maxv = 3 if thorough else 2
    cases = []

    def add(kinds, cfg, generic=False):
        if generic and not any("Fa" in KINDS[k][1] for k in kinds):
            return
        cases.append(gen_case("c%d" % len(cases), list(kinds), cfg, generic))

    for n in range(1, maxv + 1):
        for kinds in itertools.product(kinds_alpha, repeat=n):
            add(kinds, {})
            add(kinds, {"refs": True})
            add(kinds, {"refs": True}, generic=True)
            if n == 1 or (n == 2 and (thorough or kinds[0] != kinds[1])):
                for sel in SELS:
                    add(kinds, {"sel": sel})
            for ig in range(n):
                if n > 1:
                    add(kinds, {"ignore": {ig}, "refs": True})
            for vi, k in enumerate(kinds):
                nf = len(KINDS[k][1])
                if nf >= 2:
                    for fi in range(nf):
                        add(kinds, {"field_ignore": {vi: {fi}}, "refs": True})
                if KINDS[k][0] is False:
                    add(kinds, {"variant_refs": {vi}})
                    add(kinds, {"variant_refs": {vi}, "variant_refmut": {vi}})
    # enum-level selection without `owned`, one variant asking for `owned` itself (first, last, middle): the variants sharing its types
    for kinds in (["t1a", "t1a"], ["t1a", "t1a", "t1a"], ["t2", "t2", "unit"], ["t1a", "t1b", "t1a"], ["n1", "t1a", "t1a"]):
        for pos in range(len(kinds)):
            for sel in (("ref",), ("ref_mut",), ("ref", "ref_mut")):
                add(kinds, {"sel": sel, "variant_owned": {pos}})
    # an enum-level `ref` and ONE variant adding `ref_mut` for itself (Unwrap / TryUnwrap: additive at both levels)
    for kinds in (["t1a", "t1b"], ["t1a", "t2", "unit"], ["unit", "t2", "t1b"], ["t2", "t1a", "t1a"]):
        for pos in range(len(kinds)):
            if KINDS[kinds[pos]][1]:
                add(kinds, {"sel": ("ref",), "variant_mut_only": {pos}})
                add(kinds, {"sel": ("owned", "ref"), "variant_mut_only": {pos}})
    for kinds in (["unit"], ["t1a"], ["unit", "t1a"], ["t2", "unit", "n1"], ["t1a", "t1b", "unit"]):
        add(kinds, dict(RAW))
        add(kinds, dict(RAW, refs=True))
    for kinds in (["unit", "t1a", "n1", "t2"], ["t1a", "unit", "unit", "t1b"], ["t2", "t1b", "t1a", "unit"]):
        add(kinds, dict(UNDERS))
        add(kinds, dict(UNDERS, refs=True))
    # an ignored variant first, an un-attributed one, and one carrying an enabling attribute: the un-attributed
    # variant is not ignored, so its accessors must exist and work
    mix_alpha = ["unit", "t1a", "t1b", "t2"] + (["t2s", "n1"] if thorough else [])
    for kinds in itertools.product(mix_alpha, repeat=3):
        add(kinds, {"ignore": {0}, "enable_attr": {2}})
        # an ignored variant first, then a variant asking for its reference accessors itself, next to one that does not: the selection
        # belongs to the variant it is written on (not to its neighbour)
        for vi in (1, 2):
            if KINDS[kinds[vi]][0] is False and KINDS[kinds[vi]][1]:
                add(kinds, {"ignore": {0}, "variant_refs": {vi}})
                add(kinds, {"ignore": {0}, "variant_refs": {vi}, "variant_refmut": {vi}})
    # variants with an empty field list (`V()`, `V {}`): accessors exist and behave as for a variant with zero fields
    ek = ["t0", "n0"]
    for kinds in [(a,) for a in ek] + [p for a in ek for b in (["unit", "t1a", "t2"] + ek) for p in ((a, b), (b, a))] + [("t0", "unit", "t1a"), ("unit", "n0", "t0")]:
        add(kinds, {})
        add(kinds, {"refs": True})
        if len(kinds) > 1:
            add(kinds, {"ignore": {0}, "refs": True})
    for kinds in (("t11",), ("t11", "unit"), ("t2", "t11")):
        add(kinds, {})
        add(kinds, {"refs": True})
        add(kinds, {"field_ignore": {len(kinds) - 1 if kinds[-1] == "t11" else 0: {1, 10}}, "refs": True})
    if not thorough:
        # a few 3- and 4-variant enums sharing field-type tuples
        for kinds in (["t1a", "t1a", "unit"], ["t2", "n2", "t2s"], ["unit", "unit", "t1b", "t1a"], ["t2", "t2", "t1a", "t1a"]):
            add(kinds, {"refs": True})
            add(kinds, {"ignore": {1}, "refs": True})
    chk.part("space", variant_kinds=kinds_alpha, max_variants=maxv, programs=len(cases),
             configs=["plain", "enum-level owned/ref/ref_mut", "every other subset of owned/ref/ref_mut at enum level", "generic <T>", "each variant ignored", "each field ignored (TryInto)", "variant-level ref (Unwrap/TryUnwrap)"],
             pairs="every (value, accessor) pair per enum")
    eng = CompileEngine("C11", prelude=PRELUDE, per_bin=max(8, len(cases) // 16 + 1))
    results = eng.run_cases(cases)
    for c in cases:
        res = results[c.cid]
        chk.count(states=1, transitions=max(res.ncmp, 1))
        if res.compile == "ok" and res.run == "ok":
            chk.outcome("ok/" + ",".join(sorted(c.meta["cfg"])))
            chk.sample({"enum": c.meta["src"], "value_accessor_observations": res.ncmp})
            continue
        chk.outcome("%s/%s" % (res.compile, res.run))
        cfgk = ",".join(sorted(c.meta["cfg"]))
        if res.compile != "ok":
            msgs = sorted({d["message"] for d in res.diags})
            m0 = msgs[0]
            import re
            m0 = re.sub(r"c\d+::", "", m0)
            kid = None
            chk.violation("compile-error cfg=%s: %s" % (cfgk, m0[:90]), c.meta["src"], "; ".join(msgs[:4]), known_id=kid)
        else:
            first = res.detail.split("::", 1)[-1].strip().split(":")[0]
            chk.violation("wrong-result cfg=%s %s" % (cfgk, first[:60]), c.meta["src"], res.detail)
    chk.part("engine", bins_built=eng.bins_built, rounds=eng.rounds, build_s=round(eng.build_s, 1))
    chk.assumptions += ["variant names are of the form (Upper lower+){1,3}, on which snake_case is unambiguous, plus four names with stray underscores / an acronym (no digits: conventions differ on `V2`)",
                        "Unwrap/TryUnwrap are derived only for enums without named variants (documented restriction)"]
