"""C02 - derived formatting prints exactly what format! prints for the same literal (DESIGN.md §3 C02).

Every case is one enum variant (or one struct) carrying its own `#[<trait>("literal", args..)]`;
many variants share one enum so that one expansion is checked on many literals.  The reference
`format!` is built independently of the expansion: argument expressions are evaluated in a scope
where each field name is a reference to the field; the literal is then expanded in a scope where
each field name is the field itself."""
import itertools

from compile_engine import Case, CompileEngine

TRAITS = {  # derive -> (attribute, flag-free placeholder)
    "Display": ("display", "{}"), "Binary": ("binary", "{:b}"), "Octal": ("octal", "{:o}"), "LowerHex": ("lower_hex", "{:x}"),
    "UpperHex": ("upper_hex", "{:X}"), "LowerExp": ("lower_exp", "{:e}"), "UpperExp": ("upper_exp", "{:E}"), "Pointer": ("pointer", "{:p}"),
    "Debug": ("debug", "{:?}"),
}

PRELUDE = r'''
pub static A0: i32 = 0; pub static A1: i32 = -7; pub static A2: i32 = i32::MAX;
pub fn ivals() -> [&'static i32; 3] { [&A0, &A1, &A2] }
pub fn fvals() -> [f64; 3] { [0.0, -1234.5678, 6.02e23] }
'''

# placeholder specs: (text, kinds of carrier it is valid for, needs)
SPECS_INT = ["", ":?", ":#?", ":x?", ":x", ":#X", ":b", ":o", ":e", ":p", ":>8", ":*^9", ":+", ":#x", ":08.3", ":<4?", ":+e", ":#010b"]
SPECS_INT_QUICK = ["", ":?", ":x", ":p", ":>8", ":*^9", ":#x", ":08.3", ":e"]
SPECS_FLOAT = ["", ":?", ":e", ":E", ":.2", ":+.3e", ":10.1", ":<+12.4E", ":08.2"]
SPECS_PARAM = [":1$", ":w$", ":.1$", ":.w$", ":>1$.1$", ":.*"]


def lname(n):
    """name of a field inside a format literal (raw identifiers lose their prefix)"""
    return n[2:] if n.startswith("r#") else n


class Shape:
    def __init__(self, named, n, float_=False, raw=False):
        self.named, self.n, self.float_, self.raw = named, n, float_, raw
        self.names = ((["r#type", "r#fn", "r#loop"] if raw else ["x", "y", "zed"])[:n] if named else ["_%d" % i for i in range(n)])
        self.ty = "f64" if float_ else "&'static i32"

    def decl(self):
        if self.n == 0:
            return ""
        if self.named:
            return " { " + ", ".join("%s: %s" % (a, self.ty) for a in self.names) + " }"
        return "(" + ", ".join(self.ty for _ in range(self.n)) + ")"

    def ctor(self, path, vals):
        if self.n == 0:
            return path
        if self.named:
            return "%s { %s }" % (path, ", ".join("%s: %s" % (a, v) for a, v in zip(self.names, vals)))
        return "%s(%s)" % (path, ", ".join(vals))


def arg_templates(sh):
    """(name, [(alias or None, expr text, None, kind)]); kind: ref (a field reference), val (a computed value), usize"""
    f = sh.names
    d = "*" if sh.float_ else "**"
    T = [("none", [])]
    if sh.n >= 1:
        T.append(("idents", [(None, a, None, "ref") for a in f]))
        T.append(("expr", [(None, ("%s%s + 1.5" % (d, f[0])) if sh.float_ else ("%s.wrapping_add(1)" % f[0]), None, "val")] + [(None, a, None, "ref") for a in f[1:]]))
        T.append(("alias", [("a", f[-1], None, "ref"), ("b", "%s%s" % (d, f[0]), None, "val")]))
        T.append(("width", [(None, f[0], None, "ref"), (None, "4usize", None, "usize"), ("w", "6usize", None, "usize")]))
        T.append(("star", [(None, "3usize", None, "usize"), (None, f[0], None, "ref")]))
    if sh.n >= 2:
        T.append(("reversed", [(None, a, None, "ref") for a in reversed(f)]))
        # (an alias named like a field hides the field; for a raw field `r#type` the alias is written `type`, as format_args! has it)
        T.append(("shadow", [(lname(f[0]), f[1], None, "ref")]))
    return T


def placeholders(sh, tname, targs, quick):
    """All (placeholder text) usable with this template."""
    specs = SPECS_FLOAT if sh.float_ else (SPECS_INT_QUICK if quick else SPECS_INT)
    out = []
    refs = []   # (reference text, kind)
    if tname != "star":
        for i, (a, e, _, kind) in enumerate(targs):
            if a is None:
                refs.append((str(i), kind))       # positional reference, only to un-named arguments
            else:
                refs.append((a, kind))
        aliases = {a for a, _, _, _ in targs if a}
        for n in sh.names:
            if lname(n) not in aliases:
                refs.append((lname(n), "ref"))    # the field itself, captured by name
    for rf, kind in refs:
        for sp in specs:
            if ":p" in sp and kind != "ref":
                continue
            out.append("{%s%s}" % (rf, sp))
    if tname == "width":
        for sp in SPECS_PARAM[:5]:
            out.append("{0%s}" % sp)
            out.append("{%s%s}" % (lname(sh.names[0]), sp))
    if tname == "star":
        out += ["{:.*}", "{:>9.*}"]
    return out


def implicit_literals(sh, targs, quick):
    """Literals using the implicit counter (need positional args in order)."""
    plain = all(t[0] is None and t[3] != "usize" for t in targs)
    npos = len(targs) if plain else 0
    out = []
    if npos >= 1:
        out.append("{}")
        out.append("{:?}|{0}")
    if npos >= 2:
        out += ["{} {}", "{1} {} {}", "{:>4}/{:<4}|"]
    if npos >= 3:
        out += ["{}{}{}", "{2}{}{1}{}"]
    return out


def literals(sh, tname, targs, quick):
    ph = placeholders(sh, tname, targs, quick)
    texts = ["ab ", "{{", "}}"]
    lits = []
    for p in ph:
        lits.append(p)
    for t in texts:
        for p in ph[:: (3 if quick else 1)]:
            lits.append(t + p)
            lits.append(p + t)
    # whitespace-only text around a sole placeholder (still text: it must be printed)
    for t in (" ", "\n", "\t "):
        for p in ph[:: (5 if quick else 2)]:
            lits.append(p + t)
            lits.append(t + p)
    step = 7 if quick else 3
    if tname != "star":
        for i, p in enumerate(ph):
            for q in ph[(i % step):: step]:
                lits.append(p + "-" + q)
    lits += implicit_literals(sh, targs, quick)
    if tname == "star":
        lits += ["{:.*}", "x{:.*}y", "{:.*} {1}"]
    if sh.n == 0:
        lits += ["unit", "{{}}", ""]
    # dedupe, keep order
    seen, out = set(), []
    for l in lits:
        if l not in seen:
            seen.add(l)
            out.append(l)
    return out


def tail_for(targs, head=""):
    """A literal suffix that uses every argument the head leaves unused (format_args! rejects unused arguments)."""
    import re
    if not targs:
        return ""
    used_pos, used_names, implicit = set(), set(), 0
    for m in re.finditer(r"\{([^{}]*)\}", head.replace("{{", "").replace("}}", "")):
        body = m.group(1)
        arg, _, spec = body.partition(":")
        if ".*" in spec:
            used_pos.add(implicit)
            implicit += 1
        for w in re.findall(r"(\w+)\$", spec):
            (used_pos.add(int(w)) if w.isdigit() else used_names.add(w))
        if arg == "":
            used_pos.add(implicit)
            implicit += 1
        elif arg.isdigit():
            used_pos.add(int(arg))
        else:
            used_names.add(arg)
    out = []
    for j, (a, e, _, _) in enumerate(targs):
        if (a and a in used_names) or (not a and j in used_pos):
            continue
        out.append("{%s}" % (a if a else j))
    return ("|" + "".join(out)) if out else ""


def lit_rs(s):
    return '"' + s.replace("\\", "\\\\").replace('"', '\\"').replace("\n", "\\n").replace("\t", "\\t") + '"'


def lit_spelled(s, spell):
    """The same string value in another source spelling: every character as a `\\u{..}` escape, or a raw string."""
    if spell == "escaped":
        return '"' + "".join("\\u{%x}" % ord(ch) for ch in s) + '"'
    if spell == "raw" and '"#' not in s:
        return 'r#"' + s + '"#'
    return lit_rs(s)


def variant_code(sh, vname, attr, lit, targs, self_path, spell=None):
    """Returns (variant declaration, check code lines)."""
    args_attr = ", ".join(("%s = %s" % (a, e)) if a else e for a, e, _, _ in targs)
    decl = "#[%s(%s%s)] %s%s" % (attr, lit_spelled(lit, spell), (", " + args_attr) if args_attr else "", vname, sh.decl())
    return decl


def case_for(cid, derive, sh, entries, struct_mode=False):
    """entries: list of (lit, tname, targs).  One enum with one variant per entry (or one struct)."""
    attr, ph = TRAITS[derive]
    vals_fn = "fvals()" if sh.float_ else "ivals()"
    loops_open = "".join("for v%d in %s { " % (i, vals_fn) for i in range(sh.n))
    loops_close = "}" * sh.n
    fieldvals = ["v%d" % i for i in range(sh.n)]
    variants, checks = [], []
    for k, (lit, tname, targs) in enumerate(entries):
        vname = "V%d" % k
        lit = lit + tail_for(targs, lit)
        # a deterministic subset of the literals is written in another source spelling (escapes / raw string): same value
        variants.append(variant_code(sh, vname, attr, lit, targs, None, spell={3: "escaped", 5: "raw"}.get(k % 7)))
        # reference: args evaluated with field names = references to the fields
        ctor = sh.ctor("E::" + vname, fieldvals)
        pat = sh.ctor("E::" + vname, sh.names) if not sh.named else "E::%s { %s }" % (vname, ", ".join(sh.names))
        refscope = ("let (%s,) = match &val { %s => (%s,), _ => unreachable!() }; " % (", ".join(sh.names), pat, ", ".join(sh.names))) if sh.n else ""
        evals = "".join("let __a%d = %s; " % (j, e) for j, (a, e, _, _) in enumerate(targs))
        valscope = "".join("let %s = *%s; " % (a, a) for a in sh.names)
        fargs = ", ".join(("%s = __a%d" % (a, j)) if a else "__a%d" % j for j, (a, e, _, _) in enumerate(targs))
        want = "{ %s%s { %s format!(%s%s) } }" % (refscope, evals, valscope, lit_rs(lit), (", " + fargs) if fargs else "")
        checks.append("%s let val = %s; let want = %s; let got = format!(%s, val); r.eq(%s, got, want); %s" % (
            loops_open, ctor, want, lit_rs(ph), lit_rs("%s %s" % (lit, tname)), loops_close))
    mod = """use super::*;
#[derive(derive_more::%s)]
pub enum E { %s }
pub fn run(r: &mut R) {
    %s
}""" % (derive, ",\n    ".join(variants), "\n    ".join(checks))
    return Case(cid, mod, meta={"derive": derive, "shape": ("named" if sh.named else "tuple") + str(sh.n) + ("f" if sh.float_ else "") + ("raw" if getattr(sh, "raw", False) else ""),
                                "n": len(entries), "sample": "#[derive(%s)] enum E { %s, .. }" % (derive, variants[len(variants) // 2])})


def struct_case(cid, derive, sh, lit, tname, targs, use_self):
    attr, ph = TRAITS[derive]
    vals_fn = "fvals()" if sh.float_ else "ivals()"
    loops_open = "".join("for v%d in %s { " % (i, vals_fn) for i in range(sh.n))
    loops_close = "}" * sh.n
    fieldvals = ["v%d" % i for i in range(sh.n)]
    targs_attr = list(targs)
    targs_ref = list(targs)
    if use_self and sh.n >= 1:
        member = sh.names[0] if sh.named else "0"
        d = "" if sh.float_ else "*"
        targs_attr = [(None, "%sself.%s" % (d, member), None, "val")] + targs_attr
        targs_ref = [(None, "%sthis.%s" % (d, member), None, "val")] + targs_ref
    lit = lit + tail_for(targs_attr, lit)
    args_attr = ", ".join(("%s = %s" % (a, e)) if a else e for a, e, _, _ in targs_attr)
    semi = "" if sh.named else ";"
    decl = "#[%s(%s%s)] pub struct S%s%s" % (attr, lit_rs(lit), (", " + args_attr) if args_attr else "", sh.decl(), semi)
    refscope = "".join("let %s = &val.%s; " % (a, a if sh.named else str(i)) for i, a in enumerate(sh.names))
    evals = "".join("let __a%d = %s; " % (j, e) for j, (a, e, _, _) in enumerate(targs_ref))
    valscope = "".join("let %s = *%s; " % (a, a) for a in sh.names)
    fargs = ", ".join(("%s = __a%d" % (a, j)) if a else "__a%d" % j for j, (a, e, _, _) in enumerate(targs_ref))
    ctor = sh.ctor("S", fieldvals)
    want = "{ let this = &val; %s%s { %s format!(%s%s) } }" % (refscope, evals, valscope, lit_rs(lit), (", " + fargs) if fargs else "")
    mod = """use super::*;
#[derive(derive_more::%s)]
%s
pub fn run(r: &mut R) {
    %s let val = %s; let want = %s; let got = format!(%s, val); r.eq(%s, got, want); %s
}""" % (derive, decl, loops_open, ctor, want, lit_rs(ph), lit_rs(lit), loops_close)
    return Case(cid, mod, meta={"derive": derive, "shape": "struct " + ("named" if sh.named else "tuple") + str(sh.n), "n": 1, "sample": "#[derive(%s)] %s" % (derive, decl)})


def macro_cases(start):
    """Types generated by a `macro_rules!` that builds the format arguments around `$e:expr` fragments: each fragment is ONE operand
    (the derive sees it as an invisible group).  The reference `format!` is written in the same macro from the same fragments."""
    out = []
    argsets = [("{} {} {}", "2 * $e, $e2 - $e, -$e2"), ("{0} {v}", "$e2 * $e, v = 10 - $e2"), ("{}", "$e"), ("{a:>6} {0}", "($e2, 3 * $e).1, a = [1 - $e][0]"),
               ("{} {}", "f(2 * $e, $e2), 1 + $e2 * 2"),
               # fragments that are no expressions inside a block argument: a statement and an item stay what they are
               ("{}", "{ $s; 2 * $e }"), ("{} {}", "{ $i 2 * $e }, { $s; $e2 - 1 }"),
               # a fragment in postfix position: a method call binds tighter than the fragment's own prefix operator
               ("{} {}", "$e.abs(), $e2.pow(2)"), ("{}", "($e2.count_ones(), $e.signum()).1")]
    for derive, (attr, ph) in TRAITS.items():
      # (fragments with field references and operators; fragments that are nothing but paths joined by `+` - which also read as a type)
      for frags in (("*x + 1", "*y - *x"), ("K1 + K2", "self::K2 + K1 + K1"), ("-K1", "!K2")):     # (.. and two-token fragments: a prefix operator and its operand)
        for lit, args in argsets:
              for shape in ("struct", "enum"):
                  if shape == "struct":
                      decl = "#[derive(derive_more::%s)] #[%s(%s, %s)] pub struct $n { pub $f: i32, pub $g: i32 }" % (derive, attr, lit_rs(lit), args)
                      mk, pat = "$n { $f: x, $g: y }", "$n { $f, $g }"
                  else:
                      decl = "#[derive(derive_more::%s)] pub enum $n { #[%s(\"u\")] U, #[%s(%s, %s)] V { $f: i32, $g: i32 } }" % (derive, attr, attr, lit_rs(lit), args)
                      mk, pat = "$n::V { $f: x, $g: y }", "$n::V { $f, $g }"
                  mod = """use super::*;
  #[allow(dead_code)] fn f(a: i32, b: i32) -> i32 { a - b }
  #[allow(dead_code)] const K1: i32 = 3; #[allow(dead_code)] const K2: i32 = 4;
  macro_rules! mk { ($n:ident { $f:ident, $g:ident }, $e:expr, $e2:expr, $s:stmt, $i:item) => {
      %s
      impl $n {
          pub fn make(x: i32, y: i32) -> Self { %s }
          #[allow(unreachable_patterns)] pub fn want(&self) -> String { match self { %s => format!(%s, %s), _ => unreachable!() } }
      }
  } }
  mk!(S { x, y }, %s, %s, let _k = 1, #[allow(dead_code)] const K2: i32 = 2;);
  pub fn run(r: &mut R) {
      for x in [-3i32, 0, 7] { for y in [2i32, -5, 11] { let val = S::make(x, y); r.eq(%s, format!(%s, val), val.want()); } }
  }""" % (decl, mk, pat, lit_rs(lit), args, frags[0], frags[1], lit_rs("%s | %s" % (lit, args)), lit_rs(ph))
                  sample = "macro_rules! mk { ($n:ident { $f:ident, $g:ident }, $e:expr, $e2:expr, $s:stmt, $i:item) => { %s } } mk!(S { x, y }, %s, %s, let _k = 1, #[allow(dead_code)] const K2: i32 = 2;);" % (decl, frags[0], frags[1])
                  out.append(Case("c%d" % (start + len(out)), mod, meta={"derive": derive, "shape": "macro-generated " + shape, "n": 1, "sample": sample}))
    # the literal itself written by the macro's CALLER (`$msg:literal`, the usual error-type macro): the names the derive provides
    # for positional fields (`_0`, `_1`) and `_variant` have to resolve whatever the hygiene context of the literal is
    lits = [("a {_0} b {_1}", False), ("{_1:>4}|{_0:<3}|{_0}", False), ("{_0:w$}", True), ("{_1:.p$} {_0}", True)]
    for derive, (attr, ph) in TRAITS.items():
        for k, (lit, named_extra) in enumerate(lits):
            extra = ", w = 5usize" if "w$" in lit else (", p = 2usize" if "p$" in lit else "")
            decl = "#[derive(derive_more::%s)] #[%s($msg%s)] pub struct $n(pub i32, pub f64);" % (derive, attr, extra)
            mod = """use super::*;
macro_rules! mk { ($n:ident, $msg:literal) => {
    %s
    impl $n { pub fn want(&self) -> String { format!($msg%s%s) } }
} }
mk!(S, %s);
pub fn run(r: &mut R) {
    for x in [-3i32, 0, 7] { for y in [2.5f64, -0.125] { let val = S(x, y); r.eq(%s, format!(%s, val), val.want()); } }
}""" % (decl, "".join(", _%d = self.%d" % (i, i) for i in (0, 1) if "_%d" % i in lit), extra, lit_rs(lit), lit_rs(lit), lit_rs(ph))
            out.append(Case("c%d" % (start + len(out)), mod, meta={"derive": derive, "shape": "macro-caller literal struct", "n": 1,
                                                                  "sample": "macro_rules! mk { ($n:ident, $msg:literal) => { %s } } mk!(S, %s);" % (decl, lit_rs(lit))}))
        decl = "#[derive(derive_more::%s)] #[%s($msg)] pub enum $n { #[%s($m2)] A(i32), #[%s(\"b\")] B }" % (derive, attr, attr, attr)
        mod = """use super::*;
macro_rules! mk { ($n:ident, $msg:literal, $m2:literal) => {
    %s
} }
mk!(S, "<{_variant}>", "a{_0}a");
pub fn run(r: &mut R) {
    r.eq("shared wrapping literal from the caller", format!(%s, S::A(5)), "<a5a>".to_string()); r.eq("unit", format!(%s, S::B), "<b>".to_string());
}""" % (decl, lit_rs(ph), lit_rs(ph))
        if derive != "Debug":
            out.append(Case("c%d" % (start + len(out)), mod, meta={"derive": derive, "shape": "macro-caller literal enum", "n": 1,
                                                                  "sample": "macro_rules! mk { ($n:ident, $msg:literal, $m2:literal) => { %s } } mk!(S, \"<{_variant}>\", \"a{_0}a\");" % decl}))
    # a FIELD named `_variant` (the name the enum-level format uses for the variant's own text)
    for derive, (attr, ph) in TRAITS.items():
        mod = """use super::*;
#[derive(derive_more::%s)] #[%s("v={_variant} f={f}")] pub struct S { pub _variant: u8, pub f: u8 }
#[derive(derive_more::%s)] pub enum E { #[%s("v={_variant}|{f:>3}")] A { _variant: u8, f: u8 } }
pub fn run(r: &mut R) {
    r.eq("struct", format!(%s, S { _variant: 7, f: 2 }), "v=7 f=2".to_string()); r.eq("variant", format!(%s, E::A { _variant: 7, f: 2 }), "v=7|  2".to_string());
}""" % (derive, attr, derive, attr, lit_rs(ph), lit_rs(ph))
        out.append(Case("c%d" % (start + len(out)), mod, meta={"derive": derive, "shape": "field named _variant", "n": 1, "sample": '#[derive(%s)] #[%s("v={_variant} f={f}")] struct S { _variant: u8, f: u8 }' % (derive, attr)}))
    return out


CASINGS = ["lowercase", "UPPERCASE", "PascalCase", "camelCase", "snake_case", "SCREAMING_SNAKE_CASE", "kebab-case", "SCREAMING-KEBAB-CASE"]


def words(name):
    import re
    return re.findall(r"[A-Z][a-z]+", name)


def casing(name, c):
    w = [x.lower() for x in words(name)]
    return {"lowercase": "".join(w), "UPPERCASE": "".join(w).upper(), "PascalCase": "".join(x.capitalize() for x in w),
            "camelCase": w[0] + "".join(x.capitalize() for x in w[1:]), "snake_case": "_".join(w), "SCREAMING_SNAKE_CASE": "_".join(w).upper(),
            "kebab-case": "-".join(w), "SCREAMING-KEBAB-CASE": "-".join(w).upper()}[c]


def implicit_cases(start):
    cases = []
    # single-field forwarding under every trait
    for derive, (attr, ph) in TRAITS.items():
        if derive == "Debug":
            continue
        for named in (False, True):
            decl = "pub struct S { pub x: &'static i32 }" if named else "pub struct S(pub &'static i32);"
            ctor = "S { x: v }" if named else "S(v)"
            vdecl = "V { x: &'static i32 }" if named else "V(&'static i32)"
            vctor = "E::V { x: v }" if named else "E::V(v)"
            mod = """use super::*;
#[derive(derive_more::%s)] %s
#[derive(derive_more::%s)] pub enum E { %s, #[%s("other")] W }
pub fn run(r: &mut R) {
    for v in ivals() {
        r.eq("single-field struct prints as its field", format!(%s, %s), format!(%s, v));
        r.eq("single-field variant prints as its field", format!(%s, %s), format!(%s, v));
    }
}""" % (derive, decl, derive, vdecl, attr, lit_rs(ph), ctor, lit_rs(ph), lit_rs(ph), vctor, lit_rs(ph))
            cases.append(Case("i%d" % (start + len(cases)), mod, meta={"derive": derive, "shape": "implicit single field", "n": 1, "sample": "#[derive(%s)] %s" % (derive, decl)}))
    # unit names and rename_all
    names = ["Foo", "FooBar", "FooBarBaz", "Ab"]
    for name in names:
        lines = ['r.eq("unit struct prints its name", format!("{}", %s), "%s");' % (name, name)]
        mod_items = ["#[derive(derive_more::Display)] pub struct %s;" % name,
                     "#[derive(derive_more::Display)] pub enum E0 { %s, Other }" % name]
        lines.append('r.eq("unit variant prints its name", format!("{}", E0::%s), "%s");' % (name, name))
        for k, c in enumerate(CASINGS):
            sname = "%sa%s" % ("ABCDEFGH"[k], name)
            mod_items.append('#[derive(derive_more::Display)] #[display(rename_all = "%s")] pub struct %s;' % (c, sname))
            lines.append('r.eq("rename_all=%s on unit struct", format!("{}", %s), "%s");' % (c, sname, casing(sname, c)))
            mod_items.append('#[derive(derive_more::Display)] #[display(rename_all = "%s")] pub enum En%d { %s, #[display(rename_all = "%s")] Two%s, Other }' % (c, k, name, CASINGS[(k + 3) % 8], name))
            lines.append('r.eq("enum-level rename_all=%s", format!("{}", En%d::%s), "%s");' % (c, k, name, casing(name, c)))
            lines.append('r.eq("variant-level rename_all overrides", format!("{}", En%d::Two%s), "%s");' % (k, name, casing("Two" + name, CASINGS[(k + 3) % 8])))
        mod = "use super::*;\n%s\npub fn run(r: &mut R) {\n    %s\n}" % ("\n".join(mod_items), "\n    ".join(lines))
        cases.append(Case("i%d" % (start + len(cases)), mod, meta={"derive": "Display", "shape": "unit names / rename_all", "n": len(lines), "sample": mod_items[2]}))
    return cases


def casing_struct(k, name, c):
    # struct is called S<k><Name>; digits make the documented casings ambiguous, so the struct name used is chosen digit-free below
    return None


def run(chk, tier):
    thorough = tier == "thorough"
    quick = not thorough
    cases = []
    per_enum = 120
    total_lits = 0
    for derive in TRAITS:
        shapes = [Shape(False, 0), Shape(False, 1), Shape(False, 2), Shape(True, 1), Shape(True, 2)]
        if thorough or derive == "Display":
            shapes += [Shape(False, 3), Shape(True, 3)]
        if derive in ("Display", "LowerExp", "UpperExp", "Debug"):
            shapes += [Shape(False, 1, True), Shape(True, 2, True)]
        if derive in ("Display", "Pointer", "Debug", "LowerHex"):
            shapes += [Shape(True, 1, raw=True), Shape(True, 2, raw=True)]
        for sh in shapes:
            entries = []
            for tname, targs in arg_templates(sh):
                ls = literals(sh, tname, targs, quick or derive not in ("Display", "Debug", "LowerHex"))
                if derive != "Display" and quick:
                    ls = ls[::4]
                if sh.float_:
                    ls = [l for l in ls if not any(x in l for x in (":x", ":#X", ":b", ":o", ":p", ":#x", ":#010b"))]
                for l in ls:
                    entries.append((l, tname, targs))
            total_lits += len(entries)
            for k in range(0, len(entries), per_enum):
                cases.append(case_for("c%d" % len(cases), derive, sh, entries[k:k + per_enum]))
            # struct path (incl. `self` in arguments), a slice of the same literals
            for (l, tname, targs) in entries[:: (37 if quick else 131)]:
                cases.append(struct_case("c%d" % len(cases), derive, sh, l, tname, targs, use_self=False))
                if sh.n >= 1 and tname in ("none", "idents") and "{}" not in l and "{:" not in l and not any(c.isdigit() for c in l.replace("_0", "").replace("_1", "").replace("_2", "")):
                    pass
            if sh.n >= 1:
                for l in (["{0}", "{0:?} {}"] if sh.n == 1 else ["{0}", "{0}{1}", "{} {1} {%s}" % lname(sh.names[1])]):
                    targs = [] if l == "{0}" else [(None, sh.names[-1], None, "ref")]
                    if sh.float_ and derive not in ("Display", "Debug", "LowerExp", "UpperExp"):
                        continue
                    cases.append(struct_case("c%d" % len(cases), derive, sh, l, "self", targs, use_self=True))
    ic = [c for c in implicit_cases(0) if True]
    # unit-name cases use digit-free struct names
    cases += ic
    mc = macro_cases(len(cases))
    cases += mc
    dc = dollar_cases(len(cases))
    cases += dc
    chk.part("dollar_parameters_of_a_sole_placeholder", programs=len(dc), forms=["{0:0$} with the value as its own width", "{w:w$}", "{_0:W$} / {_0:.P$} / {_0:W$.P$} with constants captured from the caller's scope"],
             oracle="format! with the same literal, under every caller spec (the literal is no bare placeholder: the caller's flags do not apply)")
    chk.part("macro_generated", programs=len(mc), fragments="$e:expr = `*x + 1`, `*y - *x` as operands of `*`, binary and unary `-`, inside tuples, brackets and call arguments",
             oracle="the same literal and arguments in a format! written by the same macro")
    chk.part("space", traits=list(TRAITS), literal_variants=total_lits, programs=len(cases), literal_spellings="2 of every 7 literals written with \\u{..} escapes for every character / as a raw string",
             shapes="unit, tuple 1-3, named 1-3 (integer carrier &'static i32, float carrier f64)",
             argument_templates=["none", "field idents", "reversed idents", "expressions", "name = expr aliases", "alias shadowing a field name", "width/precision arguments", ".* arguments", "self.<field> (structs)"],
             values="3 per field, full product")
    # 16 rustc processes run in parallel: keep each program small enough (thorough: 64 programs) that their total memory stays well below the machine's
    eng = CompileEngine("C02", prelude=PRELUDE, per_bin=max(4, len(cases) // (16 if quick else 64) + 1))
    results = eng.run_cases(cases)
    import re
    for c in cases:
        res = results[c.cid]
        chk.count(states=c.meta["n"], transitions=max(res.ncmp, 1))
        if res.compile == "ok" and res.run == "ok":
            chk.outcome("ok/%s/%s" % (c.meta["derive"], c.meta["shape"]))
            chk.sample({"case": c.meta["sample"], "comparisons": res.ncmp})
            continue
        chk.outcome("%s/%s" % (res.compile, res.run))
        if res.compile != "ok":
            msgs = sorted({re.sub(r"c\d+::", "", d["message"]) for d in res.diags})
            chk.violation("compile-error %s %s: %s" % (c.meta["derive"], c.meta["shape"], msgs[0][:80]), c.meta["sample"], "; ".join(msgs[:4]) + "\n" + res.diags[0]["rendered"][:1200])
        else:
            chk.violation("text differs %s %s" % (c.meta["derive"], c.meta["shape"]), c.meta["sample"], res.detail)
    chk.part("engine", bins_built=eng.bins_built, rounds=eng.rounds, build_s=round(eng.build_s, 1))
    chk.assumptions += ["the reference format! call is generated from the same literal/argument AST but evaluated outside the derive: arguments in a scope where field names are references, the literal in a scope where field names are the fields",
                        "unit names are of the form (Upper lower+){1,3}, on which the eight documented casings are unambiguous"]



def dollar_cases(start):
    """A literal that is ONE placeholder whose width / precision is a `$` parameter needing no further argument: the value itself
    (`"{0:0$}", *_0`, `"{w:w$}", w = ..`) or a constant captured from the caller's scope (`{_0:W$}`).  Not a bare placeholder:
    the text is what format! gives for the same literal, whatever the caller's own flags are."""
    out = []
    items = [
        ("Display", "display", "{0:0$}", "*_0", "usize", ["0usize", "3", "7"], 'format!("{0:0$}", v)'),
        ("Display", "display", "{w:w$}", "w = *_0", "usize", ["0usize", "4", "11"], 'format!("{w:w$}", w = v)'),
        ("Display", "display", "{w:>w$}", "w = _0", "usize", ["2usize", "9"], 'format!("{w:>w$}", w = v)'),
        ("Display", "display", "{_0:W$}", "", "i32", ["5", "-7", "123456789"], 'format!("{v:W$}")'),
        ("Display", "display", "{_0:.P$}", "", "f64", ["2.456", "-0.5", "1e10"], 'format!("{v:.P$}")'),
        ("Display", "display", "{_0:W$.P$}", "", "f64", ["2.456", "-0.5"], 'format!("{v:W$.P$}")'),
        ("Display", "display", "{:W$}", "_0", "i32", ["5", "-7"], 'format!("{:W$}", v)'),
        ("Debug", "debug", "{_0:W$?}", "", "i32", ["5", "-7"], 'format!("{v:W$?}")'),
        ("Debug", "debug", "{_0:.P$?}", "", "f64", ["2.456"], 'format!("{v:.P$?}")'),
        ("LowerHex", "lower_hex", "{_0:W$x}", "", "i32", ["255", "-1"], 'format!("{v:W$x}")'),
        ("Binary", "binary", "{_0:#W$b}", "", "u8", ["5u8", "255"], 'format!("{v:#W$b}")'),
        ("UpperExp", "upper_exp", "{_0:.P$E}", "", "f64", ["1234.5678"], 'format!("{v:.P$E}")'),
    ]
    outer = {"Display": ["{}", "{:>12}", "{:<3}", "{:+.1}", "{:08}"], "Debug": ["{:?}", "{:#?}", "{:>12?}", "{:x?}"], "LowerHex": ["{:x}", "{:#012x}"],
             "Binary": ["{:b}", "{:>14b}"], "UpperExp": ["{:E}", "{:+.0E}"]}
    for i, (derive, attr, lit, args, ty, vals, want) in enumerate(items):
        for container in ("struct", "enum"):
            a = "#[%s(%s%s)]" % (attr, lit_rs(lit), (", " + args) if args else "")
            if container == "struct":
                decl = "#[derive(derive_more::%s)] %s pub struct S(pub %s);" % (derive, a, ty)
                mk = "S(v)"
            else:
                decl = "#[derive(derive_more::%s)] pub enum S { %s V(%s), #[%s(\"u\")] #[allow(dead_code)] U }" % (derive, a, ty, attr)
                mk = "S::V(v)"
            lines = []
            for v in vals:
                for o in outer[derive]:
                    lines.append('{ let v: %s = %s; r.eq(%s, format!(%s, %s), %s); }' % (ty, v, lit_rs("%s on %s, caller spec %s" % (lit, v, o)), lit_rs(o), mk, want))
            mod = "use super::*;\n#[allow(dead_code)] const W: usize = 6;\n#[allow(dead_code)] const P: usize = 1;\n%s\npub fn run(r: &mut R) {\n    %s\n}" % (decl, "\n    ".join(lines))
            out.append(Case("c%d" % (start + len(out)), mod, meta={"n": 1, "derive": derive, "shape": "dollar-parameter-sole-placeholder/" + container, "sample": "const W: usize = 6; const P: usize = 1; " + decl}))
    return out


def fix_unit_names(mod):
    # S<k><Name> -> names without digits: S + letter
    import re
    def repl(m):
        return "S" + "abcdefgh"[int(m.group(1))].upper() + "x" + m.group(2)
    mod2 = re.sub(r"\bS(\d)(Foo\w*|Ab)\b", repl, mod)
    # expected strings for rename_all on those structs
    def fix_expect(m):
        k = int(m.group(2)); c = m.group(1); name = "S" + "abcdefgh"[k].upper() + "x" + m.group(3)
        return 'r.eq("rename_all=%s on unit struct", format!("{}", %s), "%s");' % (c, name, casing(name, c))
    mod2 = re.sub(r'r\.eq\("rename_all=([\w-]+) on unit struct", format!\("\{\}", S(\w)x(\w+)\), "None"\);',
                  lambda m: fix_expect2(m), mod2)
    return mod2


def fix_expect2(m):
    c = m.group(1)
    name = "S" + m.group(2) + "x" + m.group(3)
    return 'r.eq("rename_all=%s on unit struct", format!("{}", %s), "%s");' % (c, name, casing(name, c))
