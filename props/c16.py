"""C16 - format arguments are split where Rust's expression grammar splits them (DESIGN.md §3 C16)."""
import json
import os
import subprocess
import tempfile

from common import MachineryError, base_env, inproc_bin
from compile_engine import Case, CompileEngine

KNOWN_CLASSES = {
    "pipe-operator-outside-closure-head": "c16-pipe-operator",
    "comma-in-type-position-generics": "c16-type-position-generics",
}

PRELUDE = r'''
macro_rules! args { ($($e:expr),* $(,)?) => { vec![$(stringify!($e).split_whitespace().collect::<Vec<_>>().join("")),*] } }
'''


def run(chk, tier):
    exe = inproc_bin()
    fd, ref_path = tempfile.mkstemp(prefix="c16ref", suffix=".jsonl")
    os.close(fd)
    p = subprocess.run([exe, "c16", "--tier", tier, "--emit-ref", ref_path], stdout=subprocess.PIPE, stderr=subprocess.PIPE, text=True,
                       env=base_env(), timeout=3000)
    if p.returncode != 0:
        raise MachineryError("c16 explorer failed: rc=%s %s" % (p.returncode, p.stderr[-2000:]))
    d = json.loads(p.stdout.strip().splitlines()[-1])
    chk.count(states=d["lists"], transitions=d["checks"])
    for k, v in d["outcomes"].items():
        chk.outcome(k, v)
    for v in d["violations"]:
        kid = KNOWN_CLASSES.get(v["class"])
        chk.outcome("disagree/%s/%s" % (v["class"] or "unclassified", v["signature"].split(":")[0]), v["count"])
        chk.violation("%s [%s]" % (v["signature"], v["class"] or "unclassified"), v["witness"], v["detail"], known_id=kid)
    for s in d["samples"]:
        chk.sample({"argument_list": s})
    chk.part("explorer", expression_forms=d["e1"], one_level_contexts=d["e2"] // max(d["e1"], 1), lists=d["lists"], checks=d["checks"],
             reference_rejected=d["reference_rejects"],
             space="lists of length 0..2 over E1 (x trailing comma x every `name =` alias subset), length 1 over E2=contexts x E1, "
                   + ("length 3 over E1 and length 2 over E2 (direct comparison)" if tier == "thorough" else "length-3 lists with every form in the middle/at both ends"),
             oracles=["syn::Expr (full) split: same count, same tokens per argument, same plain-identifier classification",
                      "sentinel probe through the real Display expansion: `{k}` hits the sentinel iff the derive counts k arguments before it",
                      "alias probe: `{n0}` refers to field n0 iff no `n0 =` alias is recognised",
                      "emitted write!(..) contains the argument tokens verbatim, in order, incl. joint punctuation"])
    # bind the reference (syn::Expr) to rustc's own expression parser: `$e:expr` fragments + stringify!
    refs = [json.loads(l) for l in open(ref_path) if l.strip()]
    os.unlink(ref_path)
    step = 1 if tier == "thorough" else 3
    refs = refs[::step]
    cases = []
    per = 200
    for b in range(0, len(refs), per):
        lines = []
        for r in refs[b:b + per]:
            want = ", ".join('"%s"' % "".join(a.split()).replace("\\", "\\\\").replace('"', '\\"') for a in r["args"])
            lines.append('r.eq(%s, args!(%s), vec![%s] as Vec<&str>);' % (json.dumps(r["list"]), r["list"], want))
        cases.append(Case("r%d" % (b // per), "use super::*;\n#[allow(unused_labels)]\npub fn run(r: &mut R) {\n    %s\n}" % "\n    ".join(lines),
                          meta={"n": len(refs[b:b + per])}))
    eng = CompileEngine("C16", prelude=PRELUDE, per_bin=max(1, len(cases) // 16 + 1))
    results = eng.run_cases(cases)
    bound = 0
    for c in cases:
        r = results[c.cid]
        if r.compile == "ok" and r.run == "ok":
            bound += c.meta["n"]
            continue
        if r.compile != "ok":
            raise MachineryError("reference cross-check program does not compile: %s" % "; ".join(x["message"] for x in r.diags[:3]))
        raise MachineryError("syn::Expr reference and rustc's $e:expr disagree (oracle bug, not a verdict): %s" % r.detail[:1500])
    chk.count(states=0, transitions=bound, validated=0)
    chk.part("reference_bound_to_rustc", lists=bound, how="macro_rules `$($e:expr),*` + stringify! must yield the reference's split for every alias-free list")
    chk.assumptions += ["expressions are drawn from a fixed alphabet of %d forms closed one level under %d contexts; identifiers in them are uninterpreted" % (d["e1"], d["e2"] // max(d["e1"], 1)),
                        "known-finding classes are decided by predicates on the reference parse and the input tokens, never on the subject's output"]
