"""C06 - derive_more::Debug without attributes is indistinguishable from std Debug (DESIGN.md §3 C06).

Part 1: generated type universes are defined three times - `dm` (derive_more::Debug), `sd` (std's derive, or
hand-written std builders with finish_non_exhaustive / format_args! for skip and field attributes) and `kn`
(a model of the one known defect: tuple fields lose the caller's flags in pretty mode) - and compared under a
grid of formatter configurations.  Part 2: explicit-state exploration of the DebugTuple builder (engines/dbgtuple)."""
import itertools
import json
import os
import re
import subprocess

from common import MachineryError, REPO, TARGET, VERIF, base_env, run as sh
from compile_engine import Case, CompileEngine


def grid_specs(thorough):
    specs = []
    for ty in ["?", "#?", "x?", "#x?", "X?", "#X?"]:
        for fa in ["", "*<", ">", "^"]:
            for sign in ["", "+"]:
                for zero in ["", "0"]:
                    for width in ["", "12"]:
                        for prec in ["", ".2"]:
                            if not thorough and (sign and zero and prec):
                                continue
                            base = ty.replace("?", "").replace("#", "")
                            alt = "#" if "#" in ty else ""
                            specs.append("%s%s%s%s%s%s%s?" % (fa, sign, alt, zero, width, prec, base))
    return specs


def prelude(specs):
    lines = ", ".join('format!("{:%s}", *t)' % s for s in specs)
    hand = (
        # hand-written Debug impls whose single write_str calls contain interior newlines at line start / mid-line / at the end
        "pub struct Ml1; impl ::core::fmt::Debug for Ml1 { fn fmt(&self, f: &mut ::core::fmt::Formatter<'_>) -> ::core::fmt::Result { f.write_str(\"a\\n  b\\nc\") } }\n"
        "pub struct Ml2; impl ::core::fmt::Debug for Ml2 { fn fmt(&self, f: &mut ::core::fmt::Formatter<'_>) -> ::core::fmt::Result { f.write_str(\"x\")?; f.write_str(\"\\ny\\n\")?; f.write_str(\"\")?; f.write_str(\"z\\n\\nw\") } }\n")
    return hand + "pub fn grid<T: ::core::fmt::Debug>(t: &T) -> Vec<String> { vec![%s] }\npub const SPECS: &[&str] = &[%s];\n" % (
        lines, ", ".join('"%s"' % s for s in specs))


# ------------------------------------------------------------------------------------------------
# a tiny type DSL

class F:  # field
    def __init__(self, name, ty, skip=False, attr=None):
        self.name, self.ty, self.skip, self.attr = name, ty, skip, attr  # attr: (literal, [arg exprs over field bindings])


class Shape:
    def __init__(self, kind, fields, vattr=None):
        self.kind, self.fields = kind, fields   # kind: unit | tuple | named
        self.vattr = vattr                      # variant-level `#[debug("literal")]` (fields referred to by name inside the literal)


class TypeDef:
    def __init__(self, name, generics="", struct=None, variants=None):
        self.name, self.generics, self.struct, self.variants = name, generics, struct, variants

    def plain(self):
        return self.name[2:] if self.name.startswith("r#") else self.name


def unraw(n):
    return n[2:] if n.startswith("r#") else n


def decl_fields(shape, mode):
    fs = []
    for i, f in enumerate(shape.fields):
        a = ""
        if mode == "dm":
            if f.skip:
                a = "#[debug(skip)] " if i % 2 == 0 else "#[debug(ignore)] "
            elif f.attr:
                a = '#[debug("%s"%s)] ' % (f.attr[0], "".join(", " + x for x in f.attr[1]))
        fs.append(a + (("pub %s: %s" % (f.name, f.ty)) if shape.kind == "named" else "pub " + f.ty))
    if shape.kind == "unit":
        return ""
    return ("{ %s }" % ", ".join(fs)) if shape.kind == "named" else ("(%s)" % ", ".join(fs))


def decl_vfields(shape, mode):
    return decl_fields(shape, mode).replace("pub ", "")


def needs_hand(td):
    shapes = [td.struct] if td.struct else [v[1] for v in td.variants]
    return any(f.skip or f.attr for s in shapes for f in s.fields) or any(s.vattr for s in shapes)


def builder_body(shape, path_name, binds, mode):
    """std-builder code for one struct/variant. binds: expressions of the fields (references)."""
    name = unraw(path_name)
    if shape.vattr:
        return 'f.write_fmt(format_args!("%s"))' % shape.vattr
    if shape.kind == "unit":
        return 'f.write_str("%s")' % name
    exhaustive = not any(f.skip for f in shape.fields)
    fin = "finish()" if exhaustive else "finish_non_exhaustive()"
    lines = []
    if shape.kind == "named":
        lines.append('let mut __b = f.debug_struct("%s");' % name)
    else:
        lines.append("let __alt = f.alternate();")
        lines.append('let mut __b = f.debug_tuple("%s");' % name)
    for i, (f_, b) in enumerate(zip(shape.fields, binds)):
        if f_.skip:
            continue
        if f_.attr:
            val = "&format_args!(\"%s\"%s)" % (f_.attr[0], "".join(", " + x for x in f_.attr[1]))
        else:
            val = b
        if shape.kind == "named":
            lines.append('__b.field("%s", %s);' % (unraw(f_.name), val))
        elif mode == "kn":
            lines.append('if __alt { __b.field(&format_args!("{:#?}", %s)); } else { __b.field(%s); }' % (val, val))
        else:
            lines.append("__b.field(%s);" % val)
    lines.append("__b.%s" % fin)
    return " ".join(lines)


def typedef_text(td, mode):
    g = td.generics
    gi = "<T: ::core::fmt::Debug>" if g else ""
    gu = "<T>" if g else ""
    hand = mode == "kn" or (mode == "sd" and needs_hand(td))
    derive = "#[derive(derive_more::Debug)]" if mode == "dm" else ("" if hand else "#[derive(Debug)]")
    if td.struct:
        s = td.struct
        semi = ";" if s.kind != "named" else ""
        out = "%s pub struct %s%s %s%s\n" % (derive, td.name, gu, decl_fields(s, mode), semi)
        if hand:
            names = [f.name if s.kind == "named" else "_%d" % i for i, f in enumerate(s.fields)]
            lets = " ".join("let %s = &self.%s;" % (n, f.name if s.kind == "named" else str(i)) for i, (n, f) in enumerate(zip(names, s.fields)))
            body = builder_body(s, td.name, names, mode)
            out += "impl%s ::core::fmt::Debug for %s%s { fn fmt(&self, f: &mut ::core::fmt::Formatter<'_>) -> ::core::fmt::Result { %s %s } }\n" % (gi, td.name, gu, lets, body)
        return out
    vs = []
    arms = []
    for vname, s in td.variants:
        vs.append("%s%s%s" % ('#[debug("%s")] ' % s.vattr if (s.vattr and mode == "dm") else "", vname, decl_vfields(s, mode)))
        names = [f.name if s.kind == "named" else "_%d" % i for i, f in enumerate(s.fields)]
        if s.kind == "unit":
            pat = "Self::%s" % vname
        elif s.kind == "named":
            pat = "Self::%s { %s }" % (vname, ", ".join(names))
        else:
            pat = "Self::%s(%s)" % (vname, ", ".join(names))
        arms.append("%s => { %s }" % (pat, builder_body(s, vname, names, mode)))
    out = "%s pub enum %s%s { %s }\n" % (derive, td.name, gu, ", ".join(vs))
    if hand:
        body = "match self { %s }" % " ".join(arms) if arms else "match *self {}"
        out += "impl%s ::core::fmt::Debug for %s%s { #[allow(unused_variables)] fn fmt(&self, f: &mut ::core::fmt::Formatter<'_>) -> ::core::fmt::Result { %s } }\n" % (gi, td.name, gu, body)
    return out


def universe_case(cid, typedefs, values, desc):
    """values: list of Rust expressions (valid in each of the three modules)."""
    mods = []
    for mode in ("dm", "sd", "kn"):
        body = "#![allow(dead_code, non_camel_case_types, unused_variables)]\nuse super::*;\n" + "".join(typedef_text(td, mode) for td in typedefs)
        body += "pub fn values() -> Vec<Box<dyn ::core::fmt::Debug>> { vec![%s] }\n" % ", ".join("Box::new(%s)" % v for v in values)
        mods.append("pub mod %s {\n%s}\n" % (mode, body))
    run = """pub fn run(r: &mut R) {
    let (d, s, k) = (dm::values(), sd::values(), kn::values());
    for i in 0..d.len() {
        let (gd, gs, gk) = (grid(&d[i]), grid(&s[i]), grid(&k[i]));
        for j in 0..gd.len() {
            if gd[j] == gs[j] { r.check("same", true); }
            else if gd[j] == gk[j] && SPECS[j].contains('#') && SPECS[j] != "#?" { r.check("known", true); r.obs(format!("KNOWN value#{} spec {{:{}}}: derive_more {:?} std {:?}", i, SPECS[j], gd[j], gs[j])); }
            else { r.check(&format!("value #{} spec {{:{}}}: derive_more {:?} std {:?}", i, SPECS[j], gd[j], gs[j]), false); }
        }
    }
}"""
    src = " ".join(typedef_text(typedefs[-1], "dm").split())
    return Case(cid, "use super::*;\n" + "".join(mods) + run, meta={"desc": desc, "src": src, "nvalues": len(values)})


INNER = [
    TypeDef("In1", struct=Shape("tuple", [F(None, "i32"), F(None, "&'static str")])),
    TypeDef("In2", struct=Shape("named", [F("a", "i32"), F("b", "In1")])),
    TypeDef("In0", struct=Shape("unit", [])),
]
POOL = [("i32", ["255", "-7"]), ("&'static str", ['"a\\nb"', '"q\\"x"']), ("In1", ['In1(10, "l1\\nl2")']), ("In2", ['In2 { a: 11, b: In1(12, "z") }']),
        ("Option<i32>", ["Some(3)", "None"]), ("Vec<i32>", ["vec![1, 20]", "vec![]"]), ("()", ["()"]), ("In0", ["In0"]), ("Ml1", ["Ml1"]), ("Ml2", ["Ml2"])]


def val_of(ty, k=0):
    for t, vs in POOL:
        if t == ty:
            return vs[k % len(vs)]
    raise KeyError(ty)


def struct_value(td, k=0):
    s = td.struct
    if s.kind == "unit":
        return td.name
    vals = [val_of(f.ty, k + i) for i, f in enumerate(s.fields)]
    if s.kind == "named":
        return "%s { %s }" % (td.name, ", ".join("%s: %s" % (f.name, v) for f, v in zip(s.fields, vals)))
    return "%s(%s)" % (td.name, ", ".join(vals))


def variant_value(td, vname, s, k=0):
    if s.kind == "unit":
        return "%s::%s" % (td.name, vname)
    vals = [val_of(f.ty, k + i) for i, f in enumerate(s.fields)]
    if s.kind == "named":
        return "%s::%s { %s }" % (td.name, vname, ", ".join("%s: %s" % (f.name, v) for f, v in zip(s.fields, vals)))
    return "%s::%s(%s)" % (td.name, vname, ", ".join(vals))


def gen_cases(thorough):
    cases = []

    def add(tds, values, desc):
        cases.append(universe_case("c%d" % len(cases), INNER + tds, values, desc))

    types = [t for t, _ in POOL]
    fname = ["a", "b", "c"]
    # A. struct shapes x field types
    add([TypeDef("Su", struct=Shape("unit", []))], ["Su"], "unit struct")
    add([TypeDef("St0", struct=Shape("tuple", []))], ["St0()"], "empty tuple struct")
    add([TypeDef("Sn0", struct=Shape("named", []))], ["Sn0 {}"], "empty braced struct")
    for n in (1, 2, 3):
        combos = list(itertools.product(types, repeat=n)) if (n <= 2 or thorough) else [c for c in itertools.product(types, repeat=n) if c[0] in ("i32", "In1") and c[1] in ("&'static str", "Vec<i32>", "In2")]
        # pack several types into one universe to keep the number of programs small
        for kind in ("tuple", "named"):
            for chunk in range(0, len(combos), 12):
                tds, vals = [], []
                for j, combo in enumerate(combos[chunk:chunk + 12]):
                    td = TypeDef("S%d" % j, struct=Shape(kind, [F(fname[i] if kind == "named" else None, t) for i, t in enumerate(combo)]))
                    tds.append(td)
                    vals += [struct_value(td, 0), struct_value(td, 1)]
                add(tds, vals, "%s structs with %d fields" % (kind, n))
    # wide shapes: two-digit field positions; named fields whose declaration order is not alphabetical
    wt = [types[i % len(types)] for i in range(12)]
    wn = ["width", "height", "z9", "z10", "b", "a", "_2", "_10", "r#type", "r#as", "Z", "y"]
    tdw = [TypeDef("W0", struct=Shape("tuple", [F(None, t) for t in wt])), TypeDef("W1", struct=Shape("named", [F(nm, t) for nm, t in zip(wn, wt)])),
           TypeDef("W2", variants=[("A", Shape("tuple", [F(None, t) for t in wt])), ("B", Shape("named", [F(nm, t) for nm, t in zip(wn, wt)]))])]
    add(tdw, [struct_value(tdw[0], 0), struct_value(tdw[0], 1), struct_value(tdw[1], 0), struct_value(tdw[1], 1)] + [variant_value(tdw[2], vn, sh, 0) for vn, sh in tdw[2].variants],
        "wide structs and variants (12 fields)")
    # B. enums
    vkinds = {
        "unit": Shape("unit", []), "t0": Shape("tuple", []), "n0": Shape("named", []), "t1": Shape("tuple", [F(None, "i32")]),
        "t2": Shape("tuple", [F(None, "i32"), F(None, "&'static str")]), "n1": Shape("named", [F("a", "In1")]),
        "n2": Shape("named", [F("a", "i32"), F("b", "Vec<i32>")]),
    }
    vcombos = [c for n in (1, 2) for c in itertools.product(vkinds, repeat=n)]
    if thorough:
        vcombos += list(itertools.product(vkinds, repeat=3))
    for chunk in range(0, len(vcombos), 10):
        tds, vals = [], []
        for j, combo in enumerate(vcombos[chunk:chunk + 10]):
            td = TypeDef("E%d" % j, variants=[("V%d" % i, vkinds[k]) for i, k in enumerate(combo)])
            tds.append(td)
            for vname, s in td.variants:
                vals.append(variant_value(td, vname, s, 0))
        add(tds, vals, "enums")
    add([TypeDef("Ez", variants=[])], [], "empty enum")
    # C. raw identifiers
    add([TypeDef("r#type", struct=Shape("tuple", [F(None, "i32")]))], ["r#type(1)"], "raw type name (tuple)")
    add([TypeDef("r#struct", struct=Shape("named", [F("r#fn", "i32"), F("r#type", "In1")]))], ['r#struct { r#fn: 1, r#type: In1(2, "x") }'], "raw type and field names")
    add([TypeDef("Rf", struct=Shape("named", [F("r#type", "i32", attr=("<{type}>", [])), F("r#fn", "i32", skip=True), F("r#loop", "In1", attr=("{:?}", ["r#loop"]))])),
         TypeDef("Rg", struct=Shape("named", [F("r#match", "i32", skip=True), F("r#struct", "i32", attr=("{}", ["r#struct"]))])),
         TypeDef("Rv", variants=[("r#fn", Shape("named", [F("r#type", "i32", attr=("t{type:x?}", [])), F("plain", "i32")])), ("r#type", Shape("unit", []))])],
        ['Rf { r#type: 1, r#fn: 2, r#loop: In1(3, "x") }', "Rg { r#match: 1, r#struct: 2 }", "Rv::r#fn { r#type: 255, plain: 3 }", "Rv::r#type"], "raw field names with field-level format attribute / skip")
    add([TypeDef("r#enum", struct=Shape("unit", []))], ["r#enum"], "raw unit struct name")
    add([TypeDef("Er", variants=[("r#fn", Shape("unit", [])), ("r#match", Shape("tuple", [F(None, "i32")])), ("r#type", Shape("named", [F("r#loop", "i32")]))])],
        ["Er::r#fn", "Er::r#match(3)", "Er::r#type { r#loop: 4 }"], "raw variant names")
    # D. generics
    add([TypeDef("Gt", "T", struct=Shape("tuple", [F(None, "T"), F(None, "i32")])), TypeDef("Gn", "T", struct=Shape("named", [F("a", "T"), F("b", "Option<T>")])),
         TypeDef("Ge", "T", variants=[("A", Shape("tuple", [F(None, "T")])), ("B", Shape("named", [F("x", "Vec<T>")])), ("C", Shape("unit", []))])],
        ['Gt(In1(1, "a\\nb"), 2)', "Gt(3u8, 4)", 'Gn { a: "s", b: Some("t") }', "Ge::A(5i64)", "Ge::<i32>::B { x: vec![6, 7] }", "Ge::<()>::C"], "generic types")
    # D2. type parameters inside compound field types next to concrete components
    add([TypeDef("Gm", "T", struct=Shape("tuple", [F(None, "(&'static str, T)"), F(None, "Vec<(usize, T)>"), F(None, "Option<(T, u8, T)>")])),
         TypeDef("Gk", "T", struct=Shape("named", [F("a", "[(T, i32); 2]"), F("b", "((T, T), (bool, [T; 1]))")])),
         TypeDef("Gv", "T", variants=[("A", Shape("tuple", [F(None, "(i32, T)")])), ("B", Shape("named", [F("x", "Option<(T, &'static str)>")]))])],
        ['Gm(("k", 1u8), vec![(1, 2u8)], Some((3u8, 4, 5u8)))', 'Gm(("k", In1(1, "x\\ny")), vec![], None)', "Gk { a: [(1i64, 2), (3, 4)], b: ((5, 6), (true, [7])) }",
         "Gv::A((1, 2u8))", 'Gv::<i32>::B { x: Some((3, "s")) }'], "generic types with compound field types")
    # E. nesting depth 2 (all combinations of tuple/named at three levels)
    for o, m, i in itertools.product(("tuple", "named"), repeat=3):
        inner = TypeDef("Ni", struct=Shape(i, [F("p" if i == "named" else None, "i32"), F("q" if i == "named" else None, "&'static str")]))
        mid = TypeDef("Nm", struct=Shape(m, [F("p" if m == "named" else None, "Ni"), F("q" if m == "named" else None, "i32")]))
        outer = TypeDef("No", struct=Shape(o, [F("p" if o == "named" else None, "Nm"), F("q" if o == "named" else None, "Vec<Ni>")]))
        iv = 'Ni { p: 1, q: "x\\ny" }' if i == "named" else 'Ni(1, "x\\ny")'
        mv = "Nm { p: %s, q: 2 }" % iv if m == "named" else "Nm(%s, 2)" % iv
        ov = "No { p: %s, q: vec![%s] }" % (mv, iv) if o == "named" else "No(%s, vec![%s])" % (mv, iv)
        cases.append(universe_case("c%d" % len(cases), [inner, mid, outer], [ov], "nesting %s/%s/%s" % (o, m, i)))
    # F. skip subsets
    ftys = ["i32", "&'static str", "In1"]
    for kind in ("tuple", "named"):
        tds, vals = [], []
        for n in (1, 2, 3):
            for mask in range(1, 1 << n):
                td = TypeDef("K%d_%d" % (n, mask), struct=Shape(kind, [F(fname[i] if kind == "named" else None, ftys[i], skip=bool(mask >> i & 1)) for i in range(n)]))
                tds.append(td)
                vals.append(struct_value(td, 0))
        add(tds, vals, "skip subsets (%s structs)" % kind)
    tds = []
    vals = []
    for n in (1, 2):
        for mask in range(1, 1 << n):
            td = TypeDef("Ek%d_%d" % (n, mask), variants=[
                ("T", Shape("tuple", [F(None, ftys[i], skip=bool(mask >> i & 1)) for i in range(n)])),
                ("N", Shape("named", [F(fname[i], ftys[i], skip=bool(mask >> i & 1)) for i in range(n)])), ("U", Shape("unit", []))])
            tds.append(td)
            vals += [variant_value(td, v, s, 0) for v, s in td.variants]
    add(tds, vals, "skip subsets (enum variants)")
    # H. a variant-level format attribute on one variant: its siblings must still print exactly as std prints them
    sib = [("unit", lambda: Shape("unit", [])), ("t1", lambda: Shape("tuple", [F(None, "i32")])), ("t2", lambda: Shape("tuple", [F(None, "i32"), F(None, "&'static str")])),
           ("n2", lambda: Shape("named", [F("a", "i32"), F("b", "Vec<i32>")])), ("n1skip", lambda: Shape("named", [F("a", "i32", skip=True), F("b", "In1")]))]
    own = [("unit", lambda: Shape("unit", [], vattr="custom")), ("t1", lambda: Shape("tuple", [F(None, "i32")], vattr="own <{_0:?}>")),
           ("n1", lambda: Shape("named", [F("a", "i32")], vattr="own {a} {a:x?}"))]
    tds, vals = [], []
    for oi, (oname, omk) in enumerate(own):
        for pos in (0, 1, 2):
            for si in range(0, len(sib), 2):
                pair = [sib[si % len(sib)], sib[(si + 1 + oi) % len(sib)]]
                vs = [("S0", pair[0][1]()), ("S1", pair[1][1]())]
                vs.insert(pos, ("Own", omk()))
                td = TypeDef("Em%d_%d_%d" % (oi, pos, si), variants=vs)
                tds.append(td)
                vals += [variant_value(td, v, sh, 0) for v, sh in td.variants]
    add(tds, vals, "variant-level format attribute on one variant, siblings without")
    # G. field-level format attribute on one field
    for kind in ("tuple", "named"):
        tds, vals = [], []
        for n in (1, 2, 3):
            for pos in range(n):
                nm = [fname[i] if kind == "named" else "_%d" % i for i in range(n)]
                other = nm[(pos + 1) % n]
                for li, (lit, args) in enumerate([("<{%s}>" % nm[pos], []), ("{:?}|{%s:x?}" % other, [nm[pos]]), ("multi\\nline {}", ["*%s" % nm[0]]),
                                                  ("{%s}\\n+ {}\\n" % nm[pos], ["*%s" % nm[0]])]):
                    fs = []
                    for i in range(n):
                        fs.append(F(fname[i] if kind == "named" else None, "i32", attr=(lit, args) if i == pos else None))
                    td = TypeDef("A%d_%d_%d" % (n, pos, li), struct=Shape(kind, fs))
                    tds.append(td)
                    vals.append(struct_value(td, 0))
        add(tds, vals, "field-level format attribute (%s structs)" % kind)
    return cases


# ------------------------------------------------------------------------------------------------
# Part 2: builder explorer

def run_builder(chk, thorough):
    crate = os.path.join(VERIF, "engines", "dbgtuple")
    if os.path.realpath(REPO) != "/repo":
        # scratch runs against a mutated copy of the repository: the engine's path dependency has to follow
        import shutil
        from common import WORK
        dst = os.path.join(WORK, "dbgtuple-src")
        shutil.rmtree(dst, ignore_errors=True)
        shutil.copytree(crate, dst, ignore=shutil.ignore_patterns("target"))
        t = open(os.path.join(dst, "Cargo.toml")).read().replace('path = "/repo"', 'path = "%s"' % REPO)
        open(os.path.join(dst, "Cargo.toml"), "w").write(t)
        crate = dst
    env = base_env()
    env["CARGO_TARGET_DIR"] = os.path.join(TARGET, "dbgtuple")
    p = sh(["cargo", "build", "--release", "--offline", "--quiet"], cwd=crate, env=env, timeout=1200)
    if p.returncode != 0:
        raise MachineryError("dbgtuple engine build failed:\n" + p.stderr[-4000:])
    exe = os.path.join(env["CARGO_TARGET_DIR"], "release", "dbgtuple")
    p = subprocess.run([exe, "--depth", "4" if thorough else "3"], stdout=subprocess.PIPE, stderr=subprocess.PIPE, text=True, timeout=3000)
    if p.returncode != 0:
        raise MachineryError("dbgtuple explorer failed: %s" % p.stderr[-2000:])
    d = json.loads(p.stdout.strip().splitlines()[-1])
    chk.count(states=d["states"], transitions=d["transitions"])
    chk.outcome("builder-agree", d["agree"])
    if d["known"]:
        chk.outcome("builder-known-pretty-flags", d["known"])
    for v in d["violations"]:
        chk.violation("builder: " + v["signature"], v["witness"], v["detail"])
    if d["known"]:
        chk.violation("builder: pretty mode drops caller flags for fields", d["known_witness"], d["known_detail"], known_id="c06-pretty-tuple-flags")
    chk.part("2_builder_explorer", **{k: d[k] for k in ("states", "transitions", "depth", "specs", "fault_points", "agree", "known")})
    for s in d["samples"]:
        chk.sample(s)


def run(chk, tier):
    thorough = tier == "thorough"
    specs = grid_specs(thorough)
    cases = gen_cases(thorough)
    chk.part("1_types", programs=len(cases), specs=len(specs), grid="{?, #?, x?, #x?, X?, #X?} x fill/align{none,*<,>,^} x sign x zero x width{none,12} x precision{none,.2}",
             families=["struct shapes x 8 field types", "enums over 7 variant kinds", "raw identifiers", "generics", "nesting depth 2", "all skip subsets", "field-level format attribute"])
    eng = CompileEngine("C06", prelude=prelude(specs), per_bin=max(2, len(cases) // 16 + 1))
    results = eng.run_cases(cases)
    for c in cases:
        res = results[c.cid]
        chk.count(states=max(c.meta["nvalues"], 1), transitions=max(res.ncmp, 1))
        known = [o for o in res.obs if o.startswith("KNOWN")]
        if known:
            chk.outcome("known-pretty-flags", len(known))
            chk.violation("pretty mode drops caller flags for tuple fields", c.meta["src"], known[0], known_id="c06-pretty-tuple-flags")
        if res.compile == "ok" and res.run == "ok":
            chk.outcome("agree/" + c.meta["desc"].split(" (")[0])
            chk.sample({"types": c.meta["src"][:300], "family": c.meta["desc"], "grid_comparisons": res.ncmp})
            continue
        chk.outcome("%s/%s" % (res.compile, res.run))
        if res.compile != "ok":
            msgs = sorted({re.sub(r"c\d+::", "", d["message"]) for d in res.diags})
            chk.violation("compile-error (%s): %s" % (c.meta["desc"], msgs[0][:80]), c.meta["src"], "; ".join(msgs[:4]) + "\n" + res.diags[0]["rendered"][:800])
        else:
            first = res.detail.split("::", 1)[-1].strip()
            m = re.search(r"spec \{:([^}]*)\}", first)
            spec = m.group(1) if m else "?"
            cls = "pretty" if "#" in spec else "plain"
            chk.violation("text differs from std (%s; %s mode)" % (c.meta["desc"], cls), c.meta["src"], res.detail[:1500])
    chk.part("engine", bins_built=eng.bins_built, rounds=eng.rounds, build_s=round(eng.build_s, 1))
    # ---- packed representations: std's derive copies the fields out (references to packed fields may be unaligned)
    pcases = []
    for k, (reprs, body, ctor) in enumerate((("packed", "(pub u8, pub u32);", "(1, 2)"), ("packed", "{ pub a: u8, pub b: u32 }", "{ a: 1, b: 2 }"), ("C, packed", "(pub u8, pub u64, pub u16);", "(1, 2, 3)"),
                                             ("packed(2)", "{ pub a: u8, pub b: u32 }", "{ a: 1, b: 2 }"))):
        src = "#[derive(derive_more::Debug, Clone, Copy)] #[repr(%s)] pub struct P%s" % (reprs, body)
        mod = "use super::*;\n%s\npub mod stdtwin { #[derive(Debug, Clone, Copy)] #[repr(%s)] pub struct P%s }\npub fn run(r: &mut R) {\n    r.eq(\"packed struct prints as std prints it\", format!(\"{:?}|{:#?}\", P%s, P%s), format!(\"{:?}|{:#?}\", stdtwin::P%s, stdtwin::P%s));\n}" % (
            src, reprs, body, ctor, ctor, ctor, ctor)
        pcases.append(Case("p%d" % k, mod, meta={"src": src}))
    peng = CompileEngine("C06P", per_bin=4)
    pres = peng.run_cases(pcases)
    for c in pcases:
        res = pres[c.cid]
        chk.count(states=1, transitions=max(res.ncmp, 1))
        if res.compile == "ok" and res.run == "ok":
            chk.outcome("agree/packed")
            continue
        chk.outcome("packed-%s/%s" % (res.compile, res.run))
        msgs = sorted({d["message"] for d in res.diags}) or [res.detail[:200]]
        # known finding: the class is "the item carries a packed repr", whatever the failure looks like
        chk.violation("packed struct: %s" % msgs[0][:70], c.meta["src"], "; ".join(msgs[:3]), known_id="c06-repr-packed-not-supported")
    chk.part("3_packed", programs=len(pcases), reference="std's derive on the identical definition in a sibling module")
    # ---- recursive generic types (lists, trees): the type mentions itself, by name or as `Self`, behind Box / Vec / Option
    rdefs = [
        ("struct L<T> { pub v: T, pub next: Option<Box<L<T>>> }", ["L { v: 1, next: None }", "L { v: 1, next: Some(Box::new(L { v: 2, next: None })) }"]),
        ("struct L<T> { pub v: T, pub next: Option<Box<Self>> }", ["L { v: 1, next: Some(Box::new(L { v: 2, next: None })) }"]),
        ("enum L<T> { Leaf(T), Node(Vec<L<T>>), Pair(Box<L<T>>, Box<L<T>>), Nil }", ["L::Leaf(7)", "L::Node(vec![L::Leaf(1), L::Nil, L::Node(vec![])])", "L::Pair(Box::new(L::Leaf(1)), Box::new(L::Nil))"]),
        ("struct L<T>(pub T, pub Vec<L<T>>);", ["L(1, vec![L(2, vec![]), L(3, vec![L(4, vec![])])])"]),
        ("struct L<T, U>(pub T, pub Option<Box<L<U, T>>>);", ["L(1u8, Some(Box::new(L(\"a\", Some(Box::new(L(2u8, None)))))))"]),
        ("enum L<'a, T> { Leaf(&'a T), Node { kids: Vec<L<'a, T>>, #[debug(skip)] depth: u8 } }", None),
        ("struct L { pub v: u8, pub next: Option<Box<L>> }", ["L { v: 1, next: Some(Box::new(L { v: 2, next: None })) }"]),
    ]
    rcases = []
    for k, (d, vals) in enumerate(rdefs):
        if vals is None:
            continue   # (skip attributes have no std twin; covered for non-recursive types in part 1)
        vs = ", ".join("Box::new(%s)" % v for v in vals)
        mod = ("use super::*;\npub mod dm { #[derive(derive_more::Debug)] pub %s pub fn values() -> Vec<Box<dyn ::core::fmt::Debug>> { vec![%s] } }\n"
               "pub mod sd { #[derive(Debug)] pub %s pub fn values() -> Vec<Box<dyn ::core::fmt::Debug>> { vec![%s] } }\n"
               "pub fn run(r: &mut R) { let (d, s) = (dm::values(), sd::values()); for i in 0..d.len() { let (gd, gs) = (grid(&d[i]), grid(&s[i])); for j in 0..gd.len() {"
               " if SPECS[j].contains('#') && SPECS[j] != \"#?\" && gd[j] != gs[j] { continue; }  r.eq(&format!(\"value #{} spec {{:{}}}\", i, SPECS[j]), gd[j].clone(), gs[j].clone()); } } }") % (d, vs, d, vs)
        rcases.append(Case("r%d" % k, mod, meta={"src": "#[derive(derive_more::Debug)] " + d}))
    reng = CompileEngine("C06R", prelude=prelude(specs), per_bin=2)
    rres = reng.run_cases(rcases)
    for c in rcases:
        res = rres[c.cid]
        chk.count(states=1, transitions=max(res.ncmp, 1))
        if res.compile == "ok" and res.run == "ok":
            chk.outcome("agree/recursive")
            continue
        chk.outcome("recursive-%s/%s" % (res.compile, res.run))
        msgs = sorted({d["message"] for d in res.diags}) or [res.detail[:300]]
        chk.violation("recursive type: %s" % re.sub(r"`[^`]*`", "`..`", msgs[0])[:70], c.meta["src"], "; ".join(msgs[:3]))
    chk.part("4_recursive", programs=len(rcases), reference="std's derive on the identical definition in a sibling module",
             note="pretty-mode flag differences of tuple fields (known finding of part 1) are not compared again here")
    run_builder(chk, thorough)
    chk.assumptions += ["reference: std's #[derive(Debug)] on an identical definition (same identifiers, separate module); for skipped fields / field attributes hand-written std builders with finish_non_exhaustive / format_args!",
                        "known-finding class is decided by equality with an executable model of the defect (fields of tuple-shaped types formatted with `{:#?}` only in pretty mode), not by the mere presence of flags"]
