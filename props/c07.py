"""C07 - enum-level format: wraps via `_variant`, otherwise is only a default (DESIGN.md §3 C07)."""
import itertools

from compile_engine import Case, CompileEngine

PRELUDE = r'''
pub static A0: i32 = 0; pub static A1: i32 = -7; pub static A2: i32 = 255;
pub fn ivals() -> [&'static i32; 3] { [&A0, &A1, &A2] }
'''

LETTER = {"Display": "", "LowerHex": "x", "Debug": "?", "Binary": "b", "Octal": "o", "UpperHex": "X", "LowerExp": "e", "UpperExp": "E", "Pointer": "p"}
ATTR = {"Display": "display", "LowerHex": "lower_hex", "Debug": "debug", "Binary": "binary", "Octal": "octal", "UpperHex": "upper_hex", "LowerExp": "lower_exp",
        "UpperExp": "upper_exp", "Pointer": "pointer"}
OTHER_TRAITS = ["Binary", "Octal", "UpperHex", "LowerExp", "UpperExp", "Pointer"]   # each has its own arm in the `_variant` default-placeholder table

# variant kinds: (fields, own attribute literal or None, variant-level rename_all)
KINDS = {
    "unit": dict(fields=[], own=None),
    "unit_own": dict(fields=[], own=("own-unit", "")),
    "t1": dict(fields=["_0"], own=None),
    "t1_own": dict(fields=["_0"], own=("o<{_0}>", "")),
    "t1_transparent": dict(fields=["_0"], own=("{_0}", "")),
    "n1": dict(fields=["x"], own=None),
    "multi_own": dict(fields=["_0", "_1"], own=("{_0}+{_1}", "")),
    "multi": dict(fields=["_0", "_1"], own=None),
    "unit_rename": dict(fields=[], own=None, rename="UPPERCASE"),
}

# shared (enum-level) attributes: (literal, args, mentions _variant?, needs fields, rejected-by-rule?)
SHARED = {
    "none": None,
    "v": dict(lit="{_variant}", args="", mention=True),
    "p_v": dict(lit="p:{_variant}", args="", mention=True),
    "v_v": dict(lit="{_variant}{_variant}", args="", mention=True),
    "arg": dict(lit="[{}]", args="_variant", mention=True),
    "alias": dict(lit="[{v}]", args="v = _variant", mention=True),
    "text": dict(lit="text only", args="", mention=False),
    "f0": dict(lit="f<{_0}>", args="", mention=False, needs=["_0"]),
    "f0_dbg": dict(lit="{_0:?}!", args="", mention=False, needs=["_0"]),
    "v_f0": dict(lit="{_variant}:{_0}", args="", mention=True, needs=["_0"]),
    "v_dbg": dict(lit="{_variant:?}", args="", mention=True, reject=True),
    "v_width": dict(lit="{_variant:>4}", args="", mention=True, reject=True),
    "v_hex_arg": dict(lit="{0:x}", args="_variant", mention=True, reject=True),
    # every kind of specifier ALONE (a combination can mask a forgotten one)
    "v_align": dict(lit="{_variant:<}", args="", mention=True, reject=True),
    "v_fill": dict(lit="{_variant:*^}", args="", mention=True, reject=True),
    "v_sign": dict(lit="{_variant:+}", args="", mention=True, reject=True),
    "v_minus": dict(lit="{_variant:-}", args="", mention=True, reject=True),
    "v_alt": dict(lit="{_variant:#}", args="", mention=True, reject=True),
    "v_zero": dict(lit="{_variant:0}", args="", mention=True, reject=True),
    "v_width_only": dict(lit="{_variant:4}", args="", mention=True, reject=True),
    "v_prec": dict(lit="{_variant:.2}", args="", mention=True, reject=True),
    "v_width_arg": dict(lit="{_variant:1$}", args="_variant, 4usize", mention=True, reject=True),
    "pos_alias": dict(lit="[{0}]", args="v = _variant", mention=True),
    # whitespace-only text after / before the sole placeholder is still text
    "v_nl": dict(lit="{_variant}\n", args="", mention=True),
    "arg_sp": dict(lit="{} ", args="_variant", mention=True),
    "sp_v": dict(lit="\t{_variant}", args="", mention=True),
    "f0_nl": dict(lit="{_0}\n", args="", mention=False, needs=["_0"]),
    "escaped": dict(lit="{{_variant}}", args="", mention=False),
    "v_ws": dict(lit="<{_variant }>", args="", mention=True),
}


def words_case(name, c):
    import re
    w = [x.lower() for x in re.findall(r"[A-Z][a-z]*", name)]
    return {"snake_case": "_".join(w), "UPPERCASE": "".join(w).upper()}[c]


def lit_rs(s):
    return '"' + s.replace("\\", "\\\\").replace('"', '\\"').replace("\n", "\\n").replace("\t", "\\t") + '"'


SINGLE_SPEC = ("v_align", "v_fill", "v_sign", "v_minus", "v_alt", "v_zero", "v_width_only", "v_prec", "v_width_arg")


class Reject(Exception):
    pass


def model(derive, kinds, shared_key, enum_rename):
    """Returns per variant the Rust expression computing the expected string (fields bound by name as the
    fields themselves), or raises Reject when the documented rules make the derive a compile error."""
    sh = SHARED[shared_key]
    letter = LETTER[derive]
    if derive == "Debug":
        if sh is not None:
            raise Reject("enum-level format attribute on Debug")
    if sh is not None and sh.get("reject"):
        raise Reject("`_variant` placeholder with a specifier / non-Display trait")
    out = []
    for vi, k in enumerate(kinds):
        kd = KINDS[k]
        name = "V%s" % "ABC"[vi] + "x"
        fields = kd["fields"]

        def own_text():
            if kd["own"] is not None:
                return "format!(%s)" % lit_rs(kd["own"][0])
            if len(fields) == 1:
                return "format!(\"{:%s}\", %s)" % (letter, fields[0])
            if len(fields) == 0:
                if derive != "Display":
                    raise Reject("implicit unit variant naming is Display-only")
                rn = kd.get("rename") or enum_rename
                return "String::from(%s)" % lit_rs(words_case(name, rn) if rn else name)
            raise Reject("multi-field variant needs a text of its own")

        if derive == "Debug":
            # std-like Debug unless the variant has its own attribute
            if kd["own"] is not None:
                out.append(own_text())
            else:
                out.append(None)   # compared with a std-derived twin
            continue
        if sh is None:
            out.append(own_text())
            continue
        if sh["mention"]:
            for need in sh.get("needs", []):
                if need not in fields:
                    raise Reject("shared literal names a field the variant lacks")
            args = sh["args"]
            out.append("{ let _variant = %s; format!(%s%s) }" % (own_text(), lit_rs(sh["lit"]), (", " + args) if args else ""))
        else:
            if kd["own"] is not None:
                out.append(own_text())
            else:
                for need in sh.get("needs", []):
                    if need not in fields:
                        raise Reject("shared default names a field the variant lacks")
                # (a field-less variant is not named implicitly here - it prints the default format - so this is not the Display-only case)
                out.append("format!(%s)" % lit_rs(sh["lit"]))
    return out


def gen_case(cid, derive, kinds, shared_key, enum_rename, rename_first=False):
    attr = ATTR[derive]
    sh = SHARED[shared_key]
    eattrs = []
    if sh is not None:
        eattrs.append("#[%s(%s%s)]" % (attr, lit_rs(sh["lit"]), (", " + sh["args"]) if sh["args"] else ""))
    if enum_rename:
        eattrs.insert(0 if rename_first else len(eattrs), '#[%s(rename_all = "%s")]' % (attr, enum_rename))
    variants, twins = [], []
    for vi, k in enumerate(kinds):
        kd = KINDS[k]
        name = "V%s" % "ABC"[vi] + "x"
        va = []
        if kd["own"] is not None:
            va.append("#[%s(%s)]" % (attr, lit_rs(kd["own"][0])))
        if kd.get("rename"):
            va.append('#[%s(rename_all = "%s")]' % (attr, kd["rename"]))
        f = kd["fields"]
        if not f:
            body = ""
        elif f[0].startswith("_"):
            body = "(%s)" % ", ".join("&'static i32" for _ in f)
        else:
            body = "{ %s }" % ", ".join("%s: &'static i32" % a for a in f)
        variants.append("%s %s%s" % (" ".join(va), name, body))
        twins.append("%s%s" % (name, body))
    src = "#[derive(%s)] %s enum E { %s }" % (derive, " ".join(eattrs), ", ".join(" ".join(v.split()) for v in variants))
    if derive == "Debug" and enum_rename:
        return None
    if derive != "Display" and any(KINDS[k].get("rename") for k in kinds):
        return None
    try:
        expect = model(derive, kinds, shared_key, enum_rename)
    except Reject as e:
        mod = "use super::*;\n#[derive(derive_more::%s)]\n%s\npub enum E { %s }" % (derive, "\n".join(eattrs), ", ".join(variants))
        return Case(cid, mod, expect="fail", has_run=False, meta={"src": src, "why": str(e), "expect": "reject"})
    lines = []
    for vi, k in enumerate(kinds):
        kd = KINDS[k]
        name = "V%s" % "ABC"[vi] + "x"
        f = kd["fields"]
        loops_open = "".join("for v%d in ivals() { " % i for i in range(len(f)))
        loops_close = "}" * len(f)
        if not f:
            ctor = "E::" + name
            tctor = "Tw::" + name
        elif f[0].startswith("_"):
            ctor = "E::%s(%s)" % (name, ", ".join("v%d" % i for i in range(len(f))))
            tctor = "Tw::%s(%s)" % (name, ", ".join("v%d" % i for i in range(len(f))))
        else:
            ctor = "E::%s { %s }" % (name, ", ".join("%s: v%d" % (a, i) for i, a in enumerate(f)))
            tctor = "Tw::%s { %s }" % (name, ", ".join("%s: v%d" % (a, i) for i, a in enumerate(f)))
        binds = "".join("let %s = v%d; " % (a, i) for i, a in enumerate(f))
        if expect[vi] is None:
            want = "format!(\"{:?}\", %s).replacen(\"Tw\", \"E\", 0)" % tctor
        else:
            want = "{ %s%s }" % (binds, expect[vi])
        lines.append('%s r.eq(%s, format!("{:%s}", %s), %s); %s' % (loops_open, lit_rs(name + " " + k), LETTER[derive], ctor, want, loops_close))
    twin = "#[derive(Debug)] pub enum Tw { %s }" % ", ".join(twins) if derive == "Debug" else ""
    mod = "use super::*;\n#[derive(derive_more::%s)]\n%s\npub enum E { %s }\n%s\npub fn run(r: &mut R) {\n    %s\n}" % (
        derive, "\n".join(eattrs), ", ".join(variants), twin, "\n    ".join(lines))
    return Case(cid, mod, meta={"src": src, "expect": "text"})


def run(chk, tier):
    thorough = tier == "thorough"
    kinds_alpha = list(KINDS)
    maxv = 2
    cases = []
    combos = [k for n in range(1, maxv + 1) for k in itertools.product(kinds_alpha, repeat=n)]
    if thorough:
        small = ["unit", "unit_own", "t1", "t1_own", "multi_own", "n1"]
        combos += list(itertools.product(small, repeat=3))
    else:
        combos += [("unit", "t1", "multi_own"), ("t1_own", "t1", "unit_rename"), ("t1_transparent", "unit_own", "n1"), ("multi", "t1", "unit")]
    for derive in ("Display", "LowerHex", "Debug"):
        for kinds in combos:
            for sk in SHARED:
                if derive == "Debug" and sk not in ("none", "v", "text", "f0"):
                    continue
                if sk in SINGLE_SPEC and (len(kinds) > 1 or derive != "Display"):
                    continue   # rejected whatever the variants are: one variant kind at a time is enough
                if derive == "LowerHex" and not thorough and sk in ("v_v", "alias", "f0_dbg", "v_width", "escaped"):
                    continue
                for rn in ((None, "snake_case") if derive == "Display" and any(not KINDS[k]["fields"] for k in kinds) else (None,)):
                    for first in ((False, True) if rn and SHARED[sk] is not None else (False,)):
                        c = gen_case("c%d" % len(cases), derive, list(kinds), sk, rn, rename_first=first)
                        if c is not None:
                            cases.append(c)
    # the remaining Display-like traits: every variant kind with fields, alone and in pairs, under the shared formats that do not need Display
    okinds = ["t1", "n1", "t1_own", "t1_transparent", "multi_own"]
    ocombos = [(k,) for k in okinds] + (list(itertools.product(okinds, repeat=2)) if thorough else [("t1", "t1_own"), ("n1", "multi_own"), ("t1_own", "t1")])
    for derive in OTHER_TRAITS:
        for kinds in ocombos:
            for sk in ("none", "v", "p_v", "arg", "alias", "text", "f0", "v_f0", "v_dbg", "v_ws"):
                c = gen_case("c%d" % len(cases), derive, list(kinds), sk, None)
                if c is not None:
                    cases.append(c)
    nrej = sum(1 for c in cases if c.expect == "fail")
    chk.part("space", programs=len(cases), expected_rejections=nrej, variant_kinds=kinds_alpha, shared_literals=list(SHARED), max_variants=maxv,
             traits=["Display", "LowerHex", "Debug"] + OTHER_TRAITS, attribute_orders="`rename_all` before and after the enum-level format attribute", note="full product for <=2 variants (+ 3-variant products over 6 kinds in thorough); every value of every variant (3 values per field)")
    # rustc's own warn-by-default lint about `"{0}", v = x` (a named argument used by position only) is about the user's literal, not the derive
    eng = CompileEngine("C07", prelude=PRELUDE, per_bin=max(8, len(cases) // 24 + 1), crate_attrs="#![allow(named_arguments_used_positionally)]\n")
    results = eng.run_cases(cases)
    import re
    for c in cases:
        res = results[c.cid]
        chk.count(states=1, transitions=max(res.ncmp, 1))
        if c.meta["expect"] == "reject":
            if res.compile == "error":
                chk.outcome("rejected: " + c.meta["why"])
                continue
            chk.outcome("accepted-but-must-be-rejected")
            chk.violation("accepted although the rule rejects it: " + c.meta["why"], c.meta["src"], "compiled without error")
            continue
        if res.compile == "ok" and res.run == "ok":
            chk.outcome("text-agrees")
            chk.sample({"enum": c.meta["src"], "values_compared": res.ncmp})
            continue
        chk.outcome("%s/%s" % (res.compile, res.run))
        if res.compile != "ok":
            msgs = sorted({re.sub(r"c\d+::", "", d["message"]) for d in res.diags})
            chk.violation("compile-error: %s" % msgs[0][:90], c.meta["src"], "; ".join(msgs[:4]))
        else:
            first = res.detail.split("::", 1)[-1].strip().split(":")[0]
            chk.violation("text differs (%s)" % first.split(" ")[-1], c.meta["src"], res.detail[:1200])
    chk.part("engine", bins_built=eng.bins_built, rounds=eng.rounds, build_s=round(eng.build_s, 1))
    chk.assumptions += ["implicit naming of unit variants is Display-only (documented), so a unit variant without its own attribute under LowerHex is a rejection",
                        "variant names are (Upper lower*)+ so snake_case/UPPERCASE are unambiguous"]
