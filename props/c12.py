"""C12 - TryFrom<repr> is the exact inverse of the enum-to-integer cast (DESIGN.md §3 C12)."""
import itertools

from compile_engine import Case, CompileEngine

BITS = {"u8": 8, "i8": 8, "u16": 16, "i16": 16, "u32": 32, "i32": 32, "u64": 64, "i64": 64,
        "u128": 128, "i128": 128, "usize": 64, "isize": 64}


def rng(t):
    b = BITS[t]
    return (-(1 << (b - 1)), (1 << (b - 1)) - 1) if t[0] == "i" else (0, (1 << b) - 1)


# discriminant expression alphabet: (name, text(repr), value(repr) or None if not expressible)
def _exprs():
    return [
        ("0", lambda t: "0", lambda t: 0),
        ("1", lambda t: "1", lambda t: 1),
        ("5", lambda t: "5", lambda t: 5),
        ("neg3", lambda t: "-3", lambda t: -3 if t[0] == "i" else None),
        ("max-1", lambda t: "%s::MAX - 1" % t, lambda t: rng(t)[1] - 1),
        ("shl", lambda t: "1 << 2", lambda t: 4),
        ("or", lambda t: "2 | 1", lambda t: 3),
        ("arith", lambda t: "3 * 2 + 1", lambda t: 7),
        ("negparen", lambda t: "-(1)", lambda t: -1 if t[0] == "i" else None),
        ("const", lambda t: "K", lambda t: 9),
        ("cast", lambda t: "1 as %s" % t, lambda t: 1),
        ("if", lambda t: "if true { 6 } else { 2 }", lambda t: 6),
    ]


EXPRS = {e[0]: e for e in _exprs()}
# expressions that only make sense in particular positions (used in hand-placed cases, not in the alphabets):
# `Self::` naming an earlier variant of the enum itself, and casts whose target type is inferred from the discriminant's expected type
EXPRS_X = {"selfplus": ("selfplus", lambda t: "Self::V0 as %s + 4" % t, lambda t: 4), "asinfer": ("asinfer", lambda t: "K16 as _", lambda t: 9),
           "leninfer": ("leninfer", lambda t: "\"abc\".len() as _", lambda t: 3), "selfneg": ("selfneg", lambda t: "-(Self::V0 as %s) - 2" % t, lambda t: -2 if t[0] == "i" else None)}
ALLX = dict(EXPRS, **EXPRS_X)

PRELUDE = r'''
pub fn check_all<E, T: Copy + PartialEq + ::core::fmt::Debug>(
    r: &mut R, dom: &mut dyn Iterator<Item = T>, disc: &[(T, bool)], idx: fn(&E) -> usize,
    tf: &dyn Fn(T) -> Result<E, derive_more::TryFromReprError<T>>,
) {
    for n in dom {
        let want = disc.iter().position(|(d, fl)| *fl && *d == n);
        match (tf(n), want) {
            (Ok(v), Some(i)) => r.check(&format!("try_from({:?}) gave variant #{} want #{}", n, idx(&v), i), idx(&v) == i),
            (Err(e), None) => r.check(&format!("Err.input for {:?}", n), e.input == n),
            (Ok(v), None) => r.check(&format!("try_from({:?}) = Ok(variant #{}) but no field-less variant has that discriminant", n, idx(&v)), false),
            (Err(_), Some(i)) => r.check(&format!("try_from({:?}) = Err but it is the discriminant of field-less variant #{}", n, i), false),
        }
    }
}
'''

# variant kinds: U unit implicit, Ue:<expr> unit explicit, P `V()`, B `V{}`, F field implicit, Fe:<expr>
GENERICS = {
    "none": ("", "", "u8", ""),
    "lt": ("<'a>", "<'static>", "&'a u8", ""),
    "const": ("<const N: usize>", "<3>", "[u8; N]", ""),
    "ty": ("<T>", "<u8>", "T", ""),
    "ty_where": ("<T> where T: Copy", "<u8>", "T", ""),
    "lt_ty_const": ("<'a, T: 'a, const N: usize>", "<'static, u8, 2>", "&'a [T; N]", ""),
}

REPRS = {
    "none": ([], "isize"),
    "C_u8": (["#[repr(C, u8)]"], "u8"),
    "u8_then_C": (["#[repr(u8)]", "#[repr(C)]"], "u8"),
    "C_then_i16": (["#[repr(C)]", "#[repr(i16)]"], "i16"),
    # the integer hint may sit in any of several `#[repr]` attributes, before or after hints that are not integers
    "u8_then_align": (["#[repr(u8)]", "#[repr(align(4))]"], "u8"),
    "align_then_i16": (["#[repr(align(2))]", "#[repr(i16)]"], "i16"),
    "i32_align_one_list": (["#[repr(i32, align(8))]"], "i32"),
    "align_u16_one_list": (["#[repr(align(2), u16)]"], "u16"),
    "C_then_i8_then_align": (["#[repr(C)]", "#[repr(i8)]", "#[repr(align(2))]"], "i8"),
    "align_then_u64_then_C": (["#[repr(align(16))]", "#[repr(u64)]", "#[repr(C)]"], "u64"),
    "u8_doc_between": (["#[repr(u8)]", "#[doc = \"x\"]", "#[repr(align(2))]"], "u8"),
}
for _t in BITS:
    REPRS[_t] = (["#[repr(%s)]" % _t], _t)


def model(kinds, t):
    """Discriminant values per the Rust reference; None if rustc rejects the enum."""
    lo, hi = rng(t)
    vals = []
    prev = None
    for k in kinds:
        if ":" in k:
            v = ALLX[k.split(":")[1]][2](t)
            if v is None:
                return None
        else:
            v = 0 if prev is None else prev + 1
        if v < lo or v > hi:
            return None
        vals.append(v)
        prev = v
    if len(set(vals)) != len(vals):
        return None
    return vals


def gen_case(cid, kinds, repr_key, gen_key, names=None):
    rattrs, t = REPRS[repr_key]
    decl, inst, fty, _ = GENERICS[gen_key]
    has_field = any(k[0] == "F" for k in kinds)
    has_explicit = any(":" in k for k in kinds)
    if gen_key != "none" and not has_field:
        return None  # every declared parameter must be used
    if "C" in repr_key.split("_") and not has_field:
        return None  # rustc rejects repr(C, int) on unit-only enums as conflicting hints
    if any(k[0] in "PBF" for k in kinds) and has_explicit and repr_key == "none":
        return None  # rustc: explicit discriminants on enums with fields need a primitive repr
    vals = model(kinds, t)
    if vals is None:
        return None
    variants, twin, arms, discs = [], [], [], []
    for i, k in enumerate(kinds):
        name = names[i] if names else "V%d" % i
        d = ""
        if ":" in k:
            d = " = " + ALLX[k.split(":")[1]][1](t)
        fieldless = k[0] in "UPB"
        if k[0] == "U":
            variants.append(name + d)
            arms.append("E::%s => %d" % (name, i))
        elif k[0] == "P":
            variants.append(name + "()")
            arms.append("E::%s() => %d" % (name, i))
        elif k[0] == "B":
            variants.append(name + "{}")
            arms.append("E::%s{} => %d" % (name, i))
        else:
            variants.append("%s(%s)%s" % (name, fty, d))
            arms.append("E::%s(..) => %d" % (name, i))
        twin.append(name + d)
        discs.append("(Tw::%s as %s, %s)" % (name, t, "true" if fieldless else "false"))
    where = ""
    if " where " in decl:
        decl, where = decl.split(" where ")
        where = " where " + where
    small = BITS[t] <= 16
    if small:
        dom = "&mut (%s::MIN..=%s::MAX)" % (t, t)
    else:
        dom = ("&mut disc.iter().flat_map(|(d, _)| [d.wrapping_sub(1), *d, d.wrapping_add(1)])"
               ".chain([0 as {t}, 1 as {t}, (0 as {t}).wrapping_sub(1), {t}::MIN, {t}::MAX, {t}::MAX / 2, 2 as {t}, 3 as {t}, 4 as {t}, 5 as {t}, 6 as {t}, 7 as {t}, 8 as {t}, 9 as {t}, 10 as {t}])"
               ".collect::<Vec<_>>().into_iter()").format(t=t)
    mod = """use super::*;
#[allow(dead_code)] const K: {t} = 9;
#[allow(dead_code)] const K16: u16 = 9;
#[derive(derive_more::TryFrom)]
#[try_from(repr)]
{rattrs}
#[allow(non_camel_case_types)]
pub enum E{decl}{where} {{ {variants} }}
{twattrs}
#[allow(non_camel_case_types)]
pub enum Tw {{ {twin} }}
type EE = E{inst};
fn idx(e: &EE) -> usize {{ match e {{ {arms} }} }}
pub fn run(r: &mut R) {{
    let disc: [({t}, bool); {n}] = [{discs}];
    r.eq("reference-model discriminants vs rustc casts", disc.iter().map(|d| d.0 as i128).collect::<Vec<_>>(), vec![{vals}]);
    check_all::<EE, {t}>(r, {dom}, &disc, idx, &|n| <EE as ::core::convert::TryFrom<{t}>>::try_from(n));
}}""".format(t=t, twattrs="" if repr_key == "none" else "#[repr(%s)]" % t, rattrs="\n".join(rattrs), decl=decl, where=where, variants=", ".join(variants),
             twin=", ".join(twin), inst=inst, arms=", ".join(arms), n=len(kinds), discs=", ".join(discs),
             vals=", ".join("%di128" % v for v in vals), dom=dom)
    shown = variants if len(variants) <= 12 else variants[:6] + ["... (%d variants) ..." % len(variants)] + variants[-3:]
    src = "%s #[try_from(repr)] enum E%s%s { %s }" % (" ".join(rattrs), decl, where, ", ".join(shown))
    return Case(cid, mod, meta={"kinds": kinds if len(kinds) <= 12 else kinds[:4] + ["x%d" % len(kinds)], "repr": repr_key, "generics": gen_key, "src": src})


def seqs(alphabet, maxlen):
    for n in range(1, maxlen + 1):
        for s in itertools.product(alphabet, repeat=n):
            yield list(s)


def signature(meta, res):
    kinds = meta["kinds"]
    feats = []
    if meta["generics"] != "none":
        feats.append("generic:" + meta["generics"])
    exprs = sorted({k.split(":")[1] for k in kinds if ":" in k})
    if res.compile != "ok":
        return "compile-error generics=%s" % meta["generics"]
    return "wrong-result exprs=%s" % ",".join(exprs)


def run(chk, tier):
    thorough = tier == "thorough"
    cases = []
    n = 0

    def add(kinds, r, g):
        nonlocal n
        c = gen_case("c%d" % n, kinds, r, g)
        if c is not None:
            cases.append(c)
            n += 1

    # Part A: every discriminant-expression form, in every position, 8-bit reprs (full integer domain)
    alphaA = ["U", "F"] + ["U:" + e for e in EXPRS] + ["F:" + e for e in ("5", "shl", "or")]
    a0 = len(cases)
    for s in seqs(alphaA, 3 if thorough else 2):
        for r in ("u8", "i8"):
            add(s, r, "none")
    chk.part("A_discriminant_expressions", alphabet=alphaA, max_len=3 if thorough else 2, reprs=["u8", "i8"], programs=len(cases) - a0)
    # Part B: every repr x variant-kind sequences
    alphaB = ["U", "U:1", "U:5", "P", "B", "F"]
    b0 = len(cases)
    for s in seqs(alphaB, 3 if thorough else 2):
        for r in REPRS:
            add(s, r, "none")
    chk.part("B_reprs", alphabet=alphaB, max_len=3 if thorough else 2, reprs=list(REPRS), programs=len(cases) - b0)
    # Part D: long runs of implicit discriminants (the offset from the last explicit one grows past every small integer width)
    d0 = len(cases)
    for r in ("u16", "i16", "none") + (("u32", "i64", "u128") if thorough else ()):
        nn = len(cases)
        cases.append(gen_case("c%d" % n, ["U"] * 300, r, "none")); n += 1
        cases.append(gen_case("c%d" % n, ["U:5"] + ["U"] * 300, r, "none")); n += 1
        cases.append(gen_case("c%d" % n, ["U"] * 130 + ["F"] + ["U"] * 140 + ["P", "B"], r if r != "none" else "u16", "none")); n += 1
        if r[0] == "i":
            cases.append(gen_case("c%d" % n, ["U:neg3"] + ["U"] * 270, r, "none")); n += 1
    chk.part("D_long_runs", run_lengths=[270, 300], reprs=["u16", "i16", "isize"] + (["u32", "i64", "u128"] if thorough else []), programs=len(cases) - d0)
    # Part E: variant names that differ only in letter case / raw prefix (helper items derived from the names must stay distinct)
    e0 = len(cases)
    for names, kinds in ((["Kb", "KB", "Mb", "MB"], ["U:1", "U", "U:5", "U"]), (["a", "A"], ["U", "U"]), (["r#fn", "Fn", "FN", "r#Self_"], ["U:5", "U", "U", "U"]),
                         (["Ab", "AB", "aB"], ["U", "F", "U"]), (["Ärger", "ÄRGER"], ["U", "U:5"])):
        for r in ("u8", "none"):
            if r == "none" and "F" in kinds:
                continue
            c = gen_case("c%d" % n, kinds, r, "none", names=names)
            if c is not None:
                cases.append(c); n += 1
    chk.part("E_names", programs=len(cases) - e0, names="pairs and triples equal up to letter case, raw identifiers, non-ASCII")
    # Part F: discriminants written in terms of the enum itself (`Self::V0`) or with an inferred cast (`x as _`)
    f0 = len(cases)
    for kinds in (["U", "U:selfplus", "U"], ["U", "U:selfneg"], ["U:asinfer", "U"], ["U", "U:asinfer", "F", "U"], ["U:leninfer", "P", "U"], ["U:asinfer", "U:leninfer"]):
        for r in ("u8", "i8", "i32", "u64"):
            add(kinds, r, "none")
    chk.part("F_self_and_inferred", programs=len(cases) - f0, expressions=sorted(EXPRS_X))
    # Part C: generics
    alphaC = ["U", "U:5", "U:shl", "F", "P"]
    c0 = len(cases)
    for s in seqs(alphaC, 3 if thorough else 2):
        for g in GENERICS:
            if g == "none":
                continue
            for r in (("none", "u8", "i64") if thorough else ("none", "u8")):
                add(s, r, g)
    chk.part("C_generics", alphabet=alphaC, generics=list(GENERICS), programs=len(cases) - c0)

    eng = CompileEngine("C12", prelude=PRELUDE, per_bin=max(60, len(cases) // 16 + 1))
    results = eng.run_cases(cases)
    for c in cases:
        res = results[c.cid]
        chk.count(states=1, transitions=max(res.ncmp, 1))
        if res.compile == "ok" and res.run == "ok":
            chk.outcome("ok/%s/%s" % (c.meta["repr"], c.meta["generics"]))
            chk.sample({"enum": c.meta["src"], "integers_tried": res.ncmp - 1, "verdict": "inverse of cast"})
            continue
        chk.outcome("%s/%s" % (res.compile, res.run))
        detail = res.detail if res.compile == "ok" else "; ".join(d["message"] for d in res.diags[:3])
        chk.violation(signature(c.meta, res), c.meta["src"], detail)
    chk.part("engine", bins_built=eng.bins_built, rounds=eng.rounds, build_s=round(eng.build_s, 1))
    chk.assumptions += ["rustc's own `as` casts on a unit-only twin enum are the discriminant reference; the Python discriminant model is cross-checked against them in every case",
                        "integer domain is exhaustive for 8/16-bit reprs; for wider reprs: all discriminants +-1, 0..10, -1, MIN, MAX, MAX/2"]
