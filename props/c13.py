"""C13 - FromStr: newtypes delegate to the field, enums match variant names (DESIGN.md §3 C13)."""
import itertools

from compile_engine import Case, CompileEngine

NAMES = ["Foo", "FOO", "foo", "Bar", "BAR", "Ba", "r#fn", "r#Type", "r#type", "Fn"]

PRELUDE = r'''
pub fn reference(names: &[&str], s: &str) -> Option<usize> {
    // the documented rule: case-insensitive when that is unambiguous for the variant, exact otherwise
    for (i, n) in names.iter().enumerate() {
        let collides = names.iter().enumerate().any(|(j, m)| j != i && m.to_lowercase() == n.to_lowercase());
        let hit = if collides { s == *n } else { s.to_lowercase() == n.to_lowercase() };
        if hit { return Some(i); }
    }
    None
}
pub fn all_strings(alphabet: &[char], maxlen: usize, f: &mut dyn FnMut(&str)) {
    fn rec(alphabet: &[char], left: usize, cur: &mut String, f: &mut dyn FnMut(&str)) {
        f(cur);
        if left == 0 { return; }
        for c in alphabet { cur.push(*c); rec(alphabet, left - 1, cur, f); cur.pop(); }
    }
    let mut cur = String::new();
    rec(alphabet, maxlen, &mut cur, f);
}
// single-character case mappings (the name pool avoids characters whose mapping is longer than one character)
pub fn up(c: char) -> char { let mut i = c.to_uppercase(); let u = i.next().unwrap(); if i.next().is_some() { c } else { u } }
pub fn low(c: char) -> char { let mut i = c.to_lowercase(); let l = i.next().unwrap(); if i.next().is_some() { c } else { l } }
pub fn case_patterns(name: &str, f: &mut dyn FnMut(&str)) {
    let cs: Vec<char> = name.chars().collect();
    for mask in 0..(1u32 << cs.len()) {
        let s: String = cs.iter().enumerate().map(|(i, c)| if mask >> i & 1 == 1 { up(*c) } else { low(*c) }).collect();
        f(&s);
    }
}
pub fn probe_enum<E>(r: &mut R, names: &[&str], enum_name: &str, maxlen: usize, idx: fn(&E) -> usize)
where E: ::core::str::FromStr<Err = derive_more::FromStrError> {
    let mut alphabet: Vec<char> = Vec::new();
    for n in names { for c in n.chars() { for d in [low(c), up(c)] { if !alphabet.contains(&d) { alphabet.push(d); } } } }
    for c in ['_', ' ', '#', 'r', 'R'] { if !alphabet.contains(&c) { alphabet.push(c); } }
    let want_err = format!("Invalid `{}` string representation", enum_name);
    let mut one = |s: &str| {
        let want = reference(names, s);
        match (s.parse::<E>(), want) {
            (Ok(v), Some(i)) => r.check(&format!("{:?} parsed to variant #{} want #{}", s, idx(&v), i), idx(&v) == i),
            (Err(e), None) => r.check(&format!("error text for {:?}: {}", s, e), e.to_string() == want_err),
            (Ok(v), None) => r.check(&format!("{:?} accepted as variant #{} but the rule rejects it", s, idx(&v)), false),
            (Err(_), Some(i)) => r.check(&format!("{:?} rejected but the rule selects variant #{} ({})", s, i, names[i]), false),
        }
    };
    all_strings(&alphabet, maxlen, &mut one);
    for n in names {
        case_patterns(n, &mut one);
        for k in 0..=n.len() { if n.is_char_boundary(k) { one(&n[..k]); } }
        for c in &alphabet { let mut s = n.to_string(); s.push(*c); one(&s); let mut t = c.to_string(); t.push_str(n); one(&t); }
        one(&format!("r#{}", n));
        one(&format!(" {}", n)); one(&format!("{} ", n)); one(&format!("{}\n", n));
    }
    for s in ["\u{212A}", "\u{017F}oo", "fo\u{00F6}", "FO\u{00D6}", "\u{0130}", "b\u{00E1}r", "", "\0"] { one(s); }
}
#[derive(Debug, PartialEq, Clone)]
pub struct UserErr(pub String);
#[derive(Debug, PartialEq, Clone)]
pub struct User(pub String);
impl ::core::str::FromStr for User {
    type Err = UserErr;
    fn from_str(s: &str) -> Result<Self, UserErr> { if s.len() % 2 == 0 { Ok(User(s.to_uppercase())) } else { Err(UserErr(format!("odd:{}", s))) } }
}
pub fn newtype_domain() -> Vec<String> {
    let mut v: Vec<String> = ["", "0", "1", "-1", "+5", "255", "256", "-128", "-129", "127", "128", "2147483647", "2147483648", "-2147483648",
        "-2147483649", "true", "false", "True", "TRUE", "a", "ab", "abc", "\u{00E9}", "\u{1F600}", "1.5", "1e3", "inf", "-inf", "NaN", "nan", "1e400", ".5", "5.",
        "127.0.0.1", "::1", "256.0.0.1", "1.2.3", " 1", "1 ", "0x10", "1_000", "--1", "+-1", "t", "f", "\n", "0.0.0.0", "::", "fe80::1", "1:2:3:4:5:6:7:8"]
        .iter().map(|s| s.to_string()).collect();
    let alphabet: Vec<char> = "0123456789-+.eatf:".chars().collect();
    all_strings(&alphabet, 2, &mut |s| v.push(s.to_string()));
    v
}
'''


def enum_case(cid, names, maxlen, enum_name="En", vattrs=None, empties=None, generic=False):
    """vattrs: per variant, attributes that are none of FromStr's business (the variant takes part all the same).
    empties: per variant (cyclic), "" / "()" / " {}": a variant with an EMPTY field list has no fields either.
    generic: the enum has a const parameter and a where-clause, both to be carried onto the impl."""
    plain = [n[2:] if n.startswith("r#") else n for n in names]
    suffix = [(empties[i % len(empties)] if empties else "") for i in range(len(names))]
    decorated = [("%s %s" % (vattrs[i % len(vattrs)], n) if vattrs and vattrs[i % len(vattrs)] else n) + suffix[i] for i, n in enumerate(names)]
    arms = ", ".join("%s::%s { .. } => %d" % (enum_name, n, i) for i, n in enumerate(names))
    gdecl, ginst = ("<const N: usize> where [u8; N]: Sized", "<3>") if generic else ("", "")
    mod = """use super::*;
#[derive(derive_more::FromStr)]
pub enum %(E)s%(gdecl)s { %(vars)s }
#[allow(deprecated)] fn idx(e: &%(E)s%(ginst)s) -> usize { match e { %(arms)s } }
pub fn run(r: &mut R) {
    probe_enum::<%(E)s%(ginst)s>(r, &[%(names)s], "%(Eplain)s", %(maxlen)d, idx);
}""" % {"E": enum_name, "Eplain": enum_name[2:] if enum_name.startswith("r#") else enum_name, "gdecl": gdecl, "ginst": ginst,
        "vars": ", ".join(decorated), "arms": arms, "names": ", ".join('"%s"' % p for p in plain), "maxlen": maxlen}
    return Case(cid, mod, meta={"kind": "enum", "names": names, "src": "#[derive(FromStr)] enum %s%s { %s }" % (enum_name, gdecl, ", ".join(decorated))})


NEWTYPES = [("i32", "i32", "|x| x"), ("u8", "u8", "|x| x"), ("i8", "i8", "|x| x"), ("bool", "bool", "|x| x"), ("char", "char", "|x| x"),
            ("f64", "f64", "|x: f64| x.to_bits()"), ("String", "String", "|x| x"),
            ("IpAddr", "::std::net::IpAddr", "|x| x"), ("User", "User", "|x| x")]


def newtype_case(cid, tname, ty, key, shape):
    if shape == "tuple":
        decl, get = "pub struct N(pub %s);" % ty, "n.0"
        inst = "N"
    elif shape == "named":
        decl, get = "pub struct N { pub inner: %s }" % ty, "n.inner"
        inst = "N"
    elif shape == "generic":
        decl, get = "pub struct N<T>(pub T);", "n.0"
        inst = "N<%s>" % ty
    elif shape == "generic_where":
        decl, get = "pub struct N<T, const K: usize>(pub T) where T: Clone;", "n.0"
        inst = "N<%s, 2>" % ty
    elif shape == "generic_named_where":
        decl, get = "pub struct N<U = u8> where U: Clone, { pub inner: U, }", "n.inner"
        inst = "N<%s>" % ty
    else:  # raw identifier field
        decl, get = "pub struct N { pub r#type: %s }" % ty, "n.r#type"
        inst = "N"
    mod = """use super::*;
#[derive(derive_more::FromStr)]
%s
pub fn run(r: &mut R) {
    let key = %s;
    for s in newtype_domain() {
        let got = s.parse::<%s>().map(|n| key(%s));
        let want = s.parse::<%s>().map(key);
        r.eq(&format!("parse {:?}", s), got, want);
    }
}""" % (decl, key, inst, get, ty)
    return Case(cid, mod, meta={"kind": "newtype", "src": "#[derive(FromStr)] %s [T=%s]" % (decl, ty)})


def run(chk, tier):
    thorough = tier == "thorough"
    maxlen = 4 if thorough else 3
    cases = []
    sizes = (1, 2, 3, 4) if thorough else (1, 2)
    for k in sizes:
        for sub in itertools.combinations(NAMES, k):
            cases.append(enum_case("e%d" % len(cases), list(sub), maxlen))
    if not thorough:
        for sub in (["Foo", "FOO", "foo", "Bar"], ["Bar", "BAR", "Ba", "r#fn"], ["r#Type", "Foo", "foo"], NAMES):
            cases.append(enum_case("e%d" % len(cases), list(sub), maxlen))
    else:
        cases.append(enum_case("e%d" % len(cases), list(NAMES), 3))
        cases.append(enum_case("e%d" % len(cases), list(reversed(NAMES)), 3))
    for sub in (["r#type", "r#Type", "TYPE"], ["r#fn", "Fn", "FN", "Foo"], ["r#type", "Type"]):
        cases.append(enum_case("e%d" % len(cases), list(sub), maxlen))
    cases.append(enum_case("e%d" % len(cases), ["A", "Foo"], maxlen, enum_name="r#Type"))
    # the error names the enum: names that start like the raw prefix, lower-case and non-ASCII names
    for en in ("r#ref", "rrule", "r", "Rr", "r_", "Ärger", "x"):
        cases.append(enum_case("e%d" % len(cases), ["A", "Foo"], 2, enum_name=en))
    # non-ASCII identifiers: "ignoring case" is not an ASCII-only notion
    for sub in (["Ärger", "Foo"], ["über", "ÜBER", "Bar"], ["Élan", "élan", "ÉLAN"], ["Ωmega"], ["Ärger", "über", "Élan", "Foo", "foo"]):
        cases.append(enum_case("e%d" % len(cases), list(sub), 2 if len(sub) > 3 else 3))
    # variants carrying attributes of other tools: hidden from the docs, lint levels, always-true cfg, another derive's helper
    for va in (["#[doc(hidden)]", ""], ["", "#[doc(hidden)]"], ["#[allow(dead_code)]", "#[doc(hidden)] #[allow(unused)]"], ["#[cfg(all())]", "#[doc = \"d\"]"], ["#[deprecated]", ""]):
        for sub in (["Foo", "FOO", "Bar"], ["Baz", "BaZ"], ["A"]):
            cases.append(enum_case("e%d" % len(cases), list(sub), maxlen, vattrs=va))
    # variants with an empty field list (`V()`, `V {}`) in every position, and enums with a const parameter and a where-clause
    for em in (["()", ""], ["", " {}"], ["()", " {}", ""], [" {}"], ["()"]):
        for sub in (["Foo", "FOO", "Bar"], ["Baz", "BaZ"], ["A"], ["r#fn", "Fn", "Ba"]):
            cases.append(enum_case("e%d" % len(cases), list(sub), maxlen, empties=em))
    for sub in (["Foo", "FOO", "Bar"], ["Baz", "BaZ"], ["A"], ["r#fn", "Fn", "Ba"], ["Foo", "Bar"]):
        cases.append(enum_case("e%d" % len(cases), list(sub), maxlen, generic=True))
        cases.append(enum_case("e%d" % len(cases), list(sub), maxlen, generic=True, empties=[" {}", "", "()"]))
    ne = len(cases)
    chk.part("enums", name_pool=NAMES, subset_sizes=list(sizes), programs=ne,
             strings="all strings of length <= %d over the names' letters in both cases + '_',' ','#','r','R'; all case patterns, prefixes, 1-char extensions, r#-prefixed and whitespace-padded forms of every name; 8 non-ASCII probes" % maxlen)
    for tname, ty, key in NEWTYPES:
        for shape in ("tuple", "named", "generic", "rawfield", "generic_where", "generic_named_where"):
            cases.append(newtype_case("n%d" % len(cases), tname, ty, key, shape))
    chk.part("newtypes", field_types=[t[0] for t in NEWTYPES], shapes=["tuple", "named", "generic<T>", "raw-identifier field", "type + const parameter with a where-clause", "defaulted parameter, where-clause with a trailing comma"],
             programs=len(cases) - ne, strings="50 hand-picked edge strings + all strings of length <= 2 over 0123456789-+.eatf:")
    eng = CompileEngine("C13", prelude=PRELUDE, per_bin=max(4, len(cases) // 16 + 1))
    results = eng.run_cases(cases)
    for c in cases:
        res = results[c.cid]
        chk.count(states=1, transitions=max(res.ncmp, 1))
        if res.compile == "ok" and res.run == "ok":
            chk.outcome("ok/" + c.meta["kind"])
            chk.sample({"type": c.meta["src"], "strings_parsed_and_compared": res.ncmp})
            continue
        chk.outcome("%s/%s" % (res.compile, res.run))
        if res.compile != "ok":
            msgs = sorted({d["message"] for d in res.diags})
            chk.violation("compile-error %s: %s" % (c.meta["kind"], msgs[0][:80]), c.meta["src"], "; ".join(msgs[:4]))
        else:
            raw = any(n.startswith("r#") for n in c.meta.get("names", []))
            first = res.detail.split("::", 1)[-1].strip()
            kind = "rejected-own-name" if "rejected but the rule selects" in first else ("accepted-wrong" if "accepted as" in first else "other")
            chk.violation("wrong-result %s %s raw=%s" % (c.meta["kind"], kind, raw), c.meta["src"], res.detail)
    chk.part("engine", bins_built=eng.bins_built, rounds=eng.rounds, build_s=round(eng.build_s, 1))
    chk.assumptions += ["case-insensitivity is Unicode lower-casing equality (str::to_lowercase), the natural reading of the documented rule; the non-ASCII names of the pool have one-character case mappings",
                        "the name of a raw identifier `r#fn` is `fn`"]
