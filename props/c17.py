"""C17 - synonymous attribute spellings are equivalent; contradictory ones are rejected (DESIGN.md §3 C17).

Part 1: every documented synonymous rewrite of every well-formed attribute set in the tables below must give the
same implementation (expansions compared as canonical multisets of items, in-process).
Part 2: every single-step corruption (unknown argument, duplicate, conflicting pair, wrong item kind, legacy form)
must make the derive fail: in-process `Err`, or - where the corrupted argument is syntactically a type the derive
has to hand on - a compile error from rustc on the real proc-macro."""
import itertools
import re

from common import svc
from compile_engine import Case, CompileEngine

FMT = ["display", "binary", "octal", "lower_hex", "upper_hex", "lower_exp", "upper_exp", "pointer"]
FMT_DERIVE = {"display": "Display", "binary": "Binary", "octal": "Octal", "lower_hex": "LowerHex", "upper_hex": "UpperHex", "lower_exp": "LowerExp",
              "upper_exp": "UpperExp", "pointer": "Pointer", "debug": "Debug"}


def rewrites():
    """(derive, description, [equivalent item texts])"""
    R = []
    # skip <-> ignore
    R.append(("From", "skip/ignore on a variant", ["enum E { #[from(skip)] A(u8), B(u16) }", "enum E { #[from(ignore)] A(u8), B(u16) }"]))
    R.append(("Into", "skip/ignore on a field", ["struct S { #[into(skip)] a: u8, b: u16 }", "struct S { #[into(ignore)] a: u8, b: u16 }"]))
    for d, a in (("AsRef", "as_ref"), ("AsMut", "as_mut")):
        R.append((d, "skip/ignore on a field", ["struct S { #[%s(skip)] a: u8, b: u16 }" % a, "struct S { #[%s(ignore)] a: u8, b: u16 }" % a]))
    R.append(("Debug", "skip/ignore on a field", ["struct S { #[debug(skip)] a: u8, b: u16 }", "struct S { #[debug(ignore)] a: u8, b: u16 }"]))
    R.append(("Debug", "skip/ignore in a variant", ["enum E { A(#[debug(skip)] u8, u16), B }", "enum E { A(#[debug(ignore)] u8, u16), B }"]))
    # bound <-> bounds <-> where, one list vs several attributes, order, trailing commas
    for a, d in FMT_DERIVE.items():
        lit = '"{_0}"' if a != "debug" else '"{_0:?}"'
        base = "struct S<T, U>(T, U);"
        forms = []
        for kw in ("bound", "bounds"):
            forms.append('#[%s(%s)] #[%s(%s(T: Clone, U: Copy))] %s' % (a, lit, a, kw, base))
        forms.append('#[%s(%s)] #[%s(bound(T: Clone))] #[%s(bound(U: Copy))] %s' % (a, lit, a, a, base))
        forms.append('#[%s(bound(U: Copy))] #[%s(%s)] #[%s(bounds(T: Clone,))] %s' % (a, a, lit, a, base))
        forms.append('#[%s(bound(T: Clone, U: Copy,))] #[%s(%s,)] %s' % (a, a, lit, base))
        forms.append('#[%s(bounds(U: Copy, T: Clone))] #[%s(%s)] %s' % (a, a, lit, base))
        R.append((d, "bound/bounds/where, split, reordered, trailing commas", forms))
        if a != "debug":
            e = "enum E<T> { #[%s(\"{_0}\")] A(T), #[%s(\"b\")] B }" % (a, a)
            R.append((d, "enum-level bound spellings", ['#[%s(%s(T: Clone))] %s' % (a, kw, e) for kw in ("bound", "bounds")]))
            R.append((d, "trailing comma after arguments", ['#[%s("{} {}", _0, _1)] struct S(u8, u16);' % a, '#[%s("{} {}", _0, _1,)] struct S(u8, u16);' % a]))
    R.append(("Display", "rename_all attribute order", ['#[display(rename_all = "snake_case")] #[display(bound(T: Clone))] enum E<T> { FooBar, #[display("{_0}")] B(T) }',
                                                        '#[display(bound(T: Clone))] #[display(rename_all = "snake_case")] enum E<T> { FooBar, #[display("{_0}")] B(T) }']))
    # type lists: one attribute vs several, trailing comma, order
    for item, at in (("struct S(u64);", "from"), ("struct S { a: u64 }", "from")):
        R.append(("From", "type list vs several attributes", ["#[from(u8, u16, u32)] " + item, "#[from(u8)] #[from(u16)] #[from(u32)] " + item, "#[from(u8, u16)] #[from(u32,)] " + item,
                                                              "#[from(u32)] #[from(u8, u16,)] " + item, "#[from(u16, u32, u8)] " + item]))
    R.append(("From", "variant type list vs several attributes", ["enum E { #[from(u8, u16)] A(u64), B(i8) }", "enum E { #[from(u8)] #[from(u16)] A(u64), B(i8) }", "enum E { #[from(u16, u8,)] A(u64), B(i8) }"]))
    R.append(("From", "tuple type lists", ["#[from((u8, u8), (u16, u16))] struct S(u32, u32);", "#[from((u8, u8))] #[from((u16, u16),)] struct S(u32, u32);"]))
    R.append(("Into", "type list vs several attributes", ["#[into(u16, u32)] struct S(u8);", "#[into(u16)] #[into(u32)] struct S(u8);", "#[into(u32, u16,)] struct S(u8);", "#[into(owned(u16, u32))] struct S(u8);",
                                                          "#[into(owned(u16), owned(u32))] struct S(u8);", "#[into(owned(u16))] #[into(owned(u32,))] struct S(u8);"]))
    R.append(("Into", "reference kinds in any order / split", ["#[into(owned, ref, ref_mut)] struct S(u8, u16);", "#[into(ref_mut, owned, ref)] struct S(u8, u16);", "#[into(owned)] #[into(ref)] #[into(ref_mut)] struct S(u8, u16);",
                                                               "#[into(ref, ref_mut,)] #[into(owned)] struct S(u8, u16);"]))
    # every way of spreading reference kinds over up to three attributes must equal the single merged attribute
    kinds = ["owned", "ref", "ref_mut"]
    subsets = [c for n in (1, 2, 3) for c in itertools.combinations(kinds, n)]
    for pos, tmpl in (("struct", "%s struct S(u8, u16);"), ("field", "struct S { %s a: u8, b: u16 }")):
        groups = {}
        for n in (1, 2, 3):
            for seq in itertools.product(subsets, repeat=n):
                union = tuple(k for k in kinds if any(k in part for part in seq))
                text = tmpl % " ".join("#[into(%s)]" % ", ".join(part) for part in seq)
                groups.setdefault(union, []).append(text)
        for union, forms in groups.items():
            base = tmpl % ("#[into(%s)]" % ", ".join(union))
            R.append(("Into", "reference kinds spread over several attributes (%s level) = %s" % (pos, "+".join(union)), [base] + forms))
    # typed variants of the same
    for seq in itertools.permutations(["owned(u16)", "ref(u8)", "ref_mut"], 3):
        pass
    R.append(("Into", "typed kinds spread over attributes", ["#[into(owned(u16), ref(u8), ref_mut)] struct S(u8);"] +
              ["%s struct S(u8);" % " ".join("#[into(%s)]" % a for a in seq) for seq in itertools.permutations(["owned(u16)", "ref(u8)", "ref_mut"], 3)] +
              ["#[into(%s)] #[into(%s)] struct S(u8);" % (", ".join(seq[:2]), seq[2]) for seq in itertools.permutations(["owned(u16)", "ref(u8)", "ref_mut"], 3)]))
    # type lists: every ordered split of a three-type list
    for d, a, item in (("From", "from", "struct S(u64);"), ("Into", "into", "struct S(u8);"), ("AsRef", "as_ref", "struct S(String);")):
        tys = {"from": ["u8", "u16", "u32"], "into": ["u16", "u32", "u64"], "as_ref": ["str", "[u8]", "String"]}[a]
        forms = []
        for perm in itertools.permutations(tys):
            for cut in ((3,), (1, 2), (2, 1), (1, 1, 1)):
                parts, k = [], 0
                for c in cut:
                    parts.append(perm[k:k + c])
                    k += c
                forms.append("%s %s" % (" ".join("#[%s(%s)]" % (a, ", ".join(p)) for p in parts), item))
        R.append((d, "every ordered split of a type list over attributes", forms))
    # a single field whose listed type is itself a tuple: the tuple is ONE type, not a list of per-field types
    R.append(("From", "single field, tuple-typed conversion", ["#[from((u8, u16))] struct S((u32, u32));", "#[from((u8, u16),)] struct S((u32, u32));", "#[from((u8, u16))] #[from((u8, u16))] struct S((u32, u32));"][:2]))
    R.append(("Into", "single field, tuple-typed conversion", ["#[into((u8, u16))] struct S((u8, u16));", "#[into((u8, u16),)] struct S((u8, u16));", "#[into(owned((u8, u16)))] struct S((u8, u16));"]))
    R.append(("From", "one-element tuple type for one field", ["#[from((u8,))] struct S((u8,));", "#[from((u8,),)] struct S((u8,));"]))
    R.append(("Into", "the fields' own type next to listed types, one kind", ["#[into(owned, owned(u16))] struct S(u8);", "#[into(owned(u16), owned)] struct S(u8);", "#[into(owned)] #[into(u16)] struct S(u8);"]))
    R.append(("Into", "the fields' own type next to listed types, by reference", ["#[into(ref, ref(str))] struct S(String);", "#[into(ref(str), ref)] struct S(String);", "#[into(ref)] #[into(ref(str))] struct S(String);"]))
    R.append(("Into", "the field's own type next to listed types, field level", ["struct S { #[into] #[into(u16)] a: u8, b: u8 }", "struct S { #[into(owned, owned(u16))] a: u8, b: u8 }", "struct S { #[into(u16)] #[into] a: u8, b: u8 }"]))
    R.append(("Into", "default is owned", ["struct S(u8, u16);", "#[into] struct S(u8, u16);", "#[into(owned)] struct S(u8, u16);"]))
    R.append(("Into", "field-level lists", ["struct S { #[into(u16, u32)] a: u8, b: u8 }", "struct S { #[into(u16)] #[into(u32)] a: u8, b: u8 }", "struct S { #[into(owned(u32, u16))] a: u8, b: u8 }"]))
    for d, a in (("AsRef", "as_ref"), ("AsMut", "as_mut")):
        R.append((d, "type list vs several attributes", ["#[%s(str, [u8])] struct S(String);" % a, "#[%s(str)] #[%s([u8])] struct S(String);" % (a, a), "#[%s([u8], str,)] struct S(String);" % a]))
        R.append((d, "field-level type lists", ["struct S { #[%s(str, [u8])] a: String, b: u8 }" % a, "struct S { #[%s(str)] #[%s([u8],)] a: String, b: u8 }" % (a, a)]))
    # State-based derives: argument order / trailing comma inside one attribute
    R.append(("TryInto", "reference kinds in any order", ["#[try_into(owned, ref, ref_mut)] enum E { A(u8), B(u16) }", "#[try_into(ref_mut, ref, owned,)] enum E { A(u8), B(u16) }"]))
    R.append(("Unwrap", "reference kinds in any order", ["#[unwrap(ref, ref_mut)] enum E { A(u8), B }", "#[unwrap(ref_mut, ref,)] enum E { A(u8), B }"]))
    R.append(("TryUnwrap", "reference kinds in any order", ["#[try_unwrap(ref, ref_mut)] enum E { A(u8), B }", "#[try_unwrap(ref_mut, ref,)] enum E { A(u8), B }"]))
    R.append(("IntoIterator", "reference kinds in any order", ["#[into_iterator(owned, ref, ref_mut)] struct S(Vec<u8>);", "#[into_iterator(ref_mut, owned, ref,)] struct S(Vec<u8>);"]))
    R.append(("Error", "source/backtrace order on one field", ["struct S { #[error(source, backtrace)] a: E, b: u8 }", "struct S { #[error(backtrace, source,)] a: E, b: u8 }"]))
    R.append(("Error", "independent field attributes in any textual order", ["struct S { #[error(not(source))] source: E, #[error(source)] b: E }", "struct S { #[error(not(source),)] source: E, #[error(source,)] b: E }"]))
    R.append(("Deref", "mark the field vs ignore the others", ["struct S { #[deref] a: u8, b: u16 }", "struct S { a: u8, #[deref(ignore)] b: u16 }"]))
    R.append(("Index", "mark the field vs ignore the others", ["struct S { #[index] a: Vec<u8>, b: u16 }", "struct S { a: Vec<u8>, #[index(ignore)] b: u16 }"]))
    # `not(X)` spells out the default where X is off by default: same expansion as no attribute at all
    for tr, m in (("Mul", "mul"), ("Div", "div"), ("Rem", "rem"), ("Shr", "shr"), ("Shl", "shl")):
        for d, a in ((tr, m), (tr + "Assign", m + "_assign")):
            for item in ("struct S(u8);", "struct S { a: u8, b: u16 }", "struct S<T>(T, T);"):
                R.append((d, "explicit default `not(forward)`", [item, "#[%s(not(forward))] %s" % (a, item), "#[%s(not(forward),)] %s" % (a, item)]))
    for d, a in (("Deref", "deref"), ("DerefMut", "deref_mut")):
        R.append((d, "explicit default `not(forward)`", ["struct S(Box<u8>);", "#[%s(not(forward))] struct S(Box<u8>);" % a, "struct S(#[%s(not(forward))] Box<u8>);" % a]))
        R.append((d, "explicit default `not(forward)` on the marked field", ["struct S { #[%s] a: Box<u8>, b: u8 }" % a, "struct S { #[%s(not(forward))] a: Box<u8>, #[%s(ignore)] b: u8 }" % (a, a)]))
    for kw in ("source", "backtrace"):
        R.append(("Error", "explicit default `not(%s)` on a field that would not be selected anyway" % kw,
                  ["struct S { a: u8, b: u16 }", "struct S { a: u8, #[error(not(%s))] b: u16 }" % kw, "struct S { #[error(not(%s))] a: u8, #[error(not(%s),)] b: u16 }" % (kw, kw)]))
        R.append(("Error", "explicit default `not(%s)` in a variant" % kw, ["enum E { A { a: u8, b: u16 }, B }", "enum E { A { a: u8, #[error(not(%s))] b: u16 }, B }" % kw]))
    # argument lists whose tokens can be glued together: the same list loosely and tightly spelled
    for d, a in (("Display", "display"), ("Debug", "debug")):
        sp = ":?" if d == "Debug" else ""
        for loose, tight, item in (
                ('"{%s} {%s}", _0, *_1' % (sp, sp), '"{%s} {%s}",_0,*_1' % (sp, sp), "struct S<T>(T, &'static T);"),
                ('"{%s} {%s} {%s}", a, -b, !c' % (sp, sp, sp), '"{%s} {%s} {%s}",a,-b,!c' % (sp, sp, sp), "struct S<T> { a: T, b: i8, c: bool }"),
                ('"{%s} {%s}", _0, &_1' % (sp, sp), '"{%s} {%s}",_0,&_1' % (sp, sp), "struct S<T, U>(T, U);"),
                ('"{%s} {%s}", f::<Option<&u8>, u8>(_0), _1' % (sp, sp), '"{%s} {%s}",f::<Option<&u8>,u8>(_0),_1' % (sp, sp), "struct S<T>(u8, T);"),
                ('"{%s} {%s}", <u8 as Tr<Vec<::core::primitive::u8>, u8>>::f(_0), _1' % (sp, sp), '"{%s} {%s}",<u8 as Tr<Vec<::core::primitive::u8>,u8>>::f(_0),_1' % (sp, sp), "struct S<T>(u8, T);"),
                ('"{%s} {%s}", (|a: &u8, b: u8| *a + b)(_0, 1), _1' % (sp, sp), '"{%s} {%s}",(|a:&u8,b:u8|*a+b)(_0,1),_1' % (sp, sp), "struct S<T>(u8, T);"),
                ('"{%s} {x%s}", _0, x = *_1' % (sp, sp), '"{%s} {x%s}",_0,x=*_1' % (sp, sp), "struct S<T>(T, &'static T);")):
            R.append((d, "argument list spelled loosely and tightly", ["#[%s(%s)] %s" % (a, loose, item), "#[%s(%s)] %s" % (a, tight, item)]))
    R.append(("From", "#[from] on every wanted variant vs skip on the others", ["enum E { #[from] A(u8), B(u16) }", "enum E { A(u8), #[from(skip)] B(u16) }", "enum E { A(u8), #[from(ignore)] B(u16) }"]))
    return R


def _has_top_level_comma(text):
    depth, in_str = 0, False
    for k, ch in enumerate(text):
        if ch == '"' and (k == 0 or text[k - 1] != "\\"):
            in_str = not in_str
        elif not in_str:
            if ch in "([<":
                depth += 1
            elif ch in ")]>":
                depth -= 1
            elif ch == "," and depth == 0:
                return True
    return False


def trailing_comma_variants(item):
    """Every spelling obtained by adding a trailing comma to ONE non-empty `name( ... )` list inside an attribute
    (at any nesting level: `#[into(owned(i64,), ref(i32))]`).  Lists not introduced by a name (tuple types) are left
    alone, because `(T)` and `(T,)` are different types."""
    out = []
    depth_attr = 0          # inside #[ ... ]
    stack = []              # (index of '(', eligible?)
    i, n = 0, len(item)
    while i < n:
        c = item[i]
        if c == '"':
            i += 1
            while i < n and item[i] != '"':
                i += 2 if item[i] == "\\" else 1
        elif c == "#" and item[i + 1:i + 2] == "[":
            depth_attr += 1
            stack.append((i + 1, False))
            i += 1
        elif c in "([":
            prev = item[i - 1] if i else " "
            stack.append((i, depth_attr > 0 and c == "(" and (prev.isalnum() or prev == "_")))
        elif c in ")]":
            start, eligible = stack.pop()
            if c == "]" and item[start] == "[" and item[start - 1:start] == "#":
                depth_attr -= 1
            if eligible:
                inner = item[start + 1:i].strip()
                # one-element lists only when the element is a plain type / expression: a lone keyword (`skip,`),
                # `name(...)` group or `name = value` followed by a comma is not a spelling the documentation suggests anywhere
                lone_special = re.fullmatch(r'(skip|ignore|forward|repr|owned|ref|ref_mut|source|backtrace)|\w+\s*\(.*\)|\w+\s*=.*', inner, re.S) and not _has_top_level_comma(inner)
                if inner and not inner.endswith(",") and not lone_special:
                    out.append(item[:i] + "," + item[i:])
        i += 1
    return out


def interleave_variants(item):
    """Every spelling obtained by putting an unrelated attribute (`#[doc = ".."]`, `#[allow(dead_code)]`) between two adjacent
    attributes of one item (struct, variant or field): the derive's own attributes need not be contiguous."""
    out = []
    for m in re.finditer(r"\] #\[", item):
        for foreign in ('#[doc = "d"]', "#[allow(dead_code)]"):
            out.append(item[:m.start() + 1] + " " + foreign + item[m.start() + 1:])
    return out


def all_spellings():
    """rewrites() plus, systematically, a trailing comma in every `name(...)` list of every documented spelling, and an
    unrelated attribute between every two adjacent attributes."""
    R = rewrites()
    for gi, (d, desc, forms) in enumerate(R):
        extra = []
        for f in forms:
            # (calls inside format arguments are the user's expressions, not lists of the attribute: no commas are added there)
            tc = [] if desc == "argument list spelled loosely and tightly" else trailing_comma_variants(f)
            for v in tc + interleave_variants(f):
                if v not in forms and v not in extra:
                    extra.append(v)
        R[gi] = (d, desc, list(forms) + extra)
    return R


def corruptions():
    """(derive, class, item, needs_rustc)  - every one must be rejected"""
    C = []

    def add(d, cls, item, rustc=False):
        C.append((d, cls, item, rustc))

    # ---- Display-likes and Debug
    for a, d in FMT_DERIVE.items():
        st = "struct S(u8);"
        add(d, "unknown argument", "#[%s(unknown)] %s" % (a, st))
        add(d, "unknown argument", "#[%s(unknown(T: Clone))] struct S<T>(T);" % a)
        add(d, "unknown argument", "#[%s(skipp)] %s" % (a, st))
        add(d, "duplicate literal", '#[%s("a")] #[%s("b")] %s' % (a, a, st))
        add(d, "duplicate literal on a variant", 'enum E { #[%s("a")] #[%s("b")] A, #[%s("c")] B }' % (a, a, a))
        add(d, "legacy fmt =", '#[%s(fmt = "{}", _0)] %s' % (a, st))
        add(d, "legacy fmt =", '#[%s(fmt = "{} {}", "_0", "self.0")] %s' % (a, st))
        add(d, "legacy fmt =", '#[%s(fmt = "{}", 1)] %s' % (a, st))
        add(d, "legacy fmt =", '#[%s(fmt = "x")] %s' % (a, st))
        add(d, "legacy bound =", '#[%s("{_0}")] #[%s(bound = "T: Clone")] struct S<T>(T);' % (a, a))
        add(d, "name-value form", '#[%s = "x"] %s' % (a, st))
        add(d, "literal is not a string", "#[%s(1)] %s" % (a, st))
        if a != "debug":
            add(d, "duplicate rename_all", '#[%s(rename_all = "snake_case")] #[%s(rename_all = "lowercase")] enum E { #[%s("a")] A }' % (a, a, a))
            add(d, "unknown casing", '#[%s(rename_all = "Snake_Kebab")] enum E { #[%s("a")] A }' % (a, a))
            add(d, "rename_all without value", '#[%s(rename_all)] enum E { #[%s("a")] A }' % (a, a))
            add(d, "_variant with a specifier", '#[%s("{_variant:?}")] enum E { #[%s("a")] A }' % (a, a))
            add(d, "multi-field without literal", "struct S(u8, u16);")
        else:
            add(d, "literal on enum", '#[debug("x")] enum E { A }')
            add(d, "skip together with literal on one field", 'struct S { #[debug(skip)] #[debug("x")] a: u8 }')
            add(d, "duplicate skip", "struct S { #[debug(skip)] #[debug(ignore)] a: u8 }")
            add(d, "field literal together with container literal", '#[debug("{a}")] struct S { #[debug("x")] a: u8 }')
            add(d, "duplicate field literal", 'struct S { #[debug("x")] #[debug("y")] a: u8 }')
            add(d, "unknown field argument", "struct S { #[debug(skipp)] a: u8 }")
            # the same field-level mistakes under a container-level literal (field attributes are parsed by another function then)
            add(d, "duplicate skip under a container literal", '#[debug("{a}")] struct S { #[debug(skip)] #[debug(ignore)] a: u8 }')
            add(d, "unknown field argument under a container literal", '#[debug("{a}")] struct S { #[debug(skipp)] a: u8 }')
            add(d, "legacy fmt = on a field under a container literal", '#[debug("{a}")] struct S { #[debug(fmt = "x")] a: u8 }')
            add(d, "field literal under a variant literal", 'enum E { #[debug("{a}")] A { #[debug("x")] a: u8 } }')
            add(d, "union", "union U { a: u8 }")
    # ---- From
    add("From", "unknown argument (is a type)", "#[from(forwardd)] struct S(u8);", rustc=True)
    add("From", "duplicate forward", "#[from(forward)] #[from(forward)] struct S(u8);")
    add("From", "conflicting forward and types", "#[from(forward)] #[from(u8)] struct S(u16);")
    add("From", "conflicting skip and from", "enum E { #[from(skip)] #[from] A(u8) }")
    add("From", "conflicting skip and types", "enum E { #[from(skip)] #[from(u8)] A(u16) }")
    add("From", "duplicate skip", "enum E { #[from(skip)] #[from(ignore)] A(u8) }")
    add("From", "duplicate empty", "enum E { #[from] #[from] A(u8) }")
    add("From", "skip on a struct", "#[from(skip)] struct S(u8);", rustc=True)
    add("From", "empty on a struct", "#[from] struct S(u8);")
    add("From", "legacy types()", "#[from(types(u8))] struct S(u16);")
    add("From", "legacy types() with strings", '#[from(types("u8"))] struct S(u16);')
    add("From", "legacy types()", "#[from(types(u8, u16))] struct S(u32, u32);")
    add("From", "legacy types()", "#[from(types(u8))] struct S {}")
    add("From", "legacy types()", "#[from(types())] struct S(u16);")
    add("From", "legacy types()", "enum E { #[from(types(u8))] A(u16), B(u8, u8) }")
    add("From", "tuple arity", "#[from((u8, u8, u8))] struct S(u16, u16);")
    add("From", "not a tuple for two fields", "#[from(u8)] struct S(u16, u16);")
    # the item position of an ENUM: the documentation places `#[from(..)]` on variants; on the enum itself it means nothing
    for arg in ("(forward)", "(u8)", "(skip)", "", "(types(u8))", "(forward, u8)"):
        add("From", "attribute on the enum itself", "#[from%s] enum E { A(u16), B }" % arg)
    add("From", "union", "union U { a: u8 }")
    add("From", "name-value form", '#[from = "u8"] struct S(u8);')
    # ---- Into
    add("Into", "unknown argument (is a type)", "#[into(ownedd)] struct S(u8);", rustc=True)
    add("Into", "mixing bare types with owned()", "#[into(u16, owned(u32))] struct S(u8);")
    add("Into", "duplicate skip", "struct S { #[into(skip)] #[into(ignore)] a: u8, b: u8 }")
    for d, a in (("From", "from"), ("Into", "into")):
        add(d, "tuple type shorter than the field list", "#[%s((u8, u8))] struct S(u32, u32, u32);" % a)
        add(d, "tuple type shorter than the field list", "#[%s((u8,))] struct S(u32, u32, u32);" % a)
        add(d, "tuple type longer than the field list", "#[%s((u8, u8, u8))] struct S(u32, u32);" % a)
        add(d, "tuple type longer than the field list", "#[%s((u8, u8, u8, u8))] struct S { a: u32, b: u32 }" % a)
        add(d, "non-tuple type for several fields", "#[%s(u8)] struct S(u32, u32);" % a)
        add(d, "non-tuple type for several fields", "#[%s(u8, (u8, u8))] struct S(u32, u32, u32);" % a)
    add("From", "tuple type shorter than the variant's field list", "enum E { #[from((u8,))] A(u32, u32), B }")
    add("Into", "legacy types()", "#[into(types(u16))] struct S(u8);")
    add("Into", "legacy owned(types())", "#[into(owned(types(u16)))] struct S(u8);")
    add("Into", "legacy types()", "#[into(types(u16, u32))] struct S(u8, u8);")
    add("Into", "legacy types() with strings", '#[into(types("u16"))] struct S(u8);')
    add("Into", "legacy owned, types()", "#[into(owned, types(u16))] struct S(u8);")
    add("Into", "legacy owned(types())", "#[into(owned(types(u16)), ref(types(u8)))] struct S(u8, u8);")
    add("Into", "legacy owned(types())", "#[into(ref_mut(types(u16)))] struct S(u8);")
    add("Into", "legacy owned(types())", "#[into(owned(types()))] struct S(u8);")
    add("Into", "legacy types()", "#[into(owned, ref, types(u16))] struct S { a: u8, b: u8 }")
    add("Into", "enum", "enum E { A(u8) }")
    add("Into", "union", "union U { a: u8 }")
    add("Into", "tuple arity", "#[into((u8, u8, u8))] struct S(u16, u16);")
    add("Into", "skip on the struct", "#[into(skip)] struct S(u8);", rustc=True)
    add("Into", "name-value form", '#[into = "u8"] struct S(u8);')
    add("Into", "missing comma", "#[into(u16 u32)] struct S(u8);")
    # ---- AsRef / AsMut
    for d, a in (("AsRef", "as_ref"), ("AsMut", "as_mut")):
        add(d, "unknown argument (is a type)", "#[%s(forwardd)] struct S(u8);" % a, rustc=True)
        add(d, "struct and field attribute together", "#[%s(forward)] struct S(#[%s] u8);" % (a, a))
        add(d, "struct attribute on two fields", "#[%s(forward)] struct S(u8, u16);" % a)
        add(d, "skip mixed with other field attributes", "struct S { #[%s(skip)] a: u8, #[%s] b: u16 }" % (a, a))
        add(d, "conflicting forward and types", "#[%s(forward)] #[%s(str)] struct S(String);" % (a, a))
        add(d, "duplicate forward", "#[%s(forward)] #[%s(forward)] struct S(String);" % (a, a))
        add(d, "duplicate skip", "struct S { #[%s(skip)] #[%s(ignore)] a: u8, b: u16 }" % (a, a))
        add(d, "duplicate empty", "struct S { #[%s] #[%s] a: u8, b: u16 }" % (a, a))
        add(d, "enum", "enum E { A(u8) }")
        add(d, "skip on the struct", "#[%s(skip)] struct S(u8);" % a, rustc=True)
    # ---- State-based derives (old-style attribute parser)
    for d, a, item_s, item_f in (("Deref", "deref", "#[deref(@)] struct S(Box<u8>);", "struct S { #[deref(@)] a: Box<u8>, b: u8 }"),
                                 ("DerefMut", "deref_mut", "#[deref_mut(@)] struct S(Box<u8>);", "struct S { #[deref_mut(@)] a: Box<u8>, b: u8 }")):
        for bad in ("unknown", "forward, forwardd", "owned", "source", "forward(x)", '"lit"', "not(forward), unknown"):
            add(d, "unknown/unsupported argument `%s`" % bad, item_s.replace("@", bad))
            add(d, "unknown/unsupported argument `%s`" % bad, item_f.replace("@", bad))
        add(d, "duplicate attribute", "#[%s(forward)] #[%s(forward)] struct S(Box<u8>);" % (a, a))
        add(d, "name-value form", '#[%s = "forward"] struct S(Box<u8>);' % a)
        add(d, "two candidate fields", "struct S(u8, u16);")
        add(d, "enum", "enum E { A(u8) }")
    for d, a in (("Index", "index"), ("IndexMut", "index_mut")):
        for bad in ("unknown", "forward", "owned", "ignore, ignorre"):
            add(d, "unknown/unsupported argument `%s`" % bad, "struct S { #[%s(%s)] a: Vec<u8>, b: u8 }" % (a, bad))
        add(d, "duplicate attribute", "struct S { #[%s] #[%s] a: Vec<u8>, b: u8 }" % (a, a))
    for bad in ("unknown", "forward", "source", "owned(u8)", "ref, reff", "not(owned)"):
        add("IntoIterator", "unknown/unsupported argument `%s`" % bad, "#[into_iterator(%s)] struct S(Vec<u8>);" % bad)
        add("TryInto", "unknown/unsupported argument `%s`" % bad, "#[try_into(%s)] enum E { A(u8) }" % bad)
        add("Unwrap", "unknown/unsupported argument `%s`" % bad, "#[unwrap(%s)] enum E { A(u8) }" % bad)
        add("TryUnwrap", "unknown/unsupported argument `%s`" % bad, "#[try_unwrap(%s)] enum E { A(u8) }" % bad)
    add("IntoIterator", "duplicate attribute", "#[into_iterator(owned)] #[into_iterator(ref)] struct S(Vec<u8>);")
    add("TryInto", "duplicate attribute", "#[try_into(owned)] #[try_into(ref)] enum E { A(u8) }")
    add("Unwrap", "duplicate attribute", "enum E { #[unwrap(ref)] #[unwrap(ref_mut)] A(u8) }")
    add("TryUnwrap", "duplicate attribute", "enum E { #[try_unwrap(ref)] #[try_unwrap(ref_mut)] A(u8) }")
    add("IsVariant", "unknown argument", "enum E { #[is_variant(unknown)] A }")
    add("IsVariant", "unsupported argument", "enum E { #[is_variant(owned)] A }")
    add("IsVariant", "duplicate attribute", "enum E { #[is_variant(ignore)] #[is_variant(ignore)] A }")
    add("IsVariant", "struct", "struct S(u8);")
    add("Unwrap", "struct", "struct S(u8);")
    add("TryUnwrap", "struct", "struct S(u8);")
    add("TryInto", "struct", "struct S(u8);")
    # ---- Error
    for bad in ("unknown", "forward", "source, sourcee", "not(unknown)", "not(not(source))", "owned", "not(ignore)"):
        add("Error", "unknown/unsupported argument `%s`" % bad, "struct S { #[error(%s)] a: E, b: u8 }" % bad)
    add("Error", "duplicate attribute", "struct S { #[error(source)] #[error(backtrace)] a: E }")
    add("Error", "two explicit sources", "struct S { #[error(source)] a: E, #[error(source)] b: E }")
    add("Error", "source on the struct", "#[error(source)] struct S { a: E }")
    add("Error", "source on a variant", "enum X { #[error(source)] A { a: E } }")
    add("Error", "name-value form", 'struct S { #[error = "source"] a: E }')
    # ---- Mul-like
    for d, a in (("Mul", "mul"), ("Div", "div"), ("MulAssign", "mul_assign"), ("ShlAssign", "shl_assign")):
        for bad in ("unknown", "forwardd", "ignore", "forward, unknown", "forward(x)", "not(forward), x"):
            add(d, "unknown/unsupported argument `%s`" % bad, "#[%s(%s)] struct S(u8);" % (a, bad))
        add(d, "duplicate attribute", "#[%s(forward)] #[%s(forward)] struct S(u8);" % (a, a))
        add(d, "attribute on a field", "struct S(#[%s(forward)] u8);" % a)
        add(d, "empty attribute", "#[%s] struct S(u8);" % a)
    add("MulAssign", "forward on an enum", "#[mul_assign(forward)] enum E { A(u8) }")
    # ---- TryFrom
    add("TryFrom", "unknown argument", "#[try_from(unknown)] enum E { A }")
    add("TryFrom", "reserved repr(types)", "#[try_from(repr(u8))] enum E { A }")
    add("TryFrom", "duplicate repr", "#[try_from(repr)] #[try_from(repr)] enum E { A }")
    add("TryFrom", "struct", "#[try_from(repr)] struct S(u8);")
    add("TryFrom", "two integer reprs", "#[try_from(repr)] #[repr(u8)] #[repr(i8)] enum E { A }")
    add("TryFrom", "empty attribute", "#[try_from] enum E { A }")
    add("TryFrom", "extra tokens", "#[try_from(repr, repr)] enum E { A }")
    # ---- item kinds
    for d in ("Add", "Not", "Sum", "Constructor", "FromStr", "AddAssign", "Mul", "Deref", "Index", "IntoIterator", "AsRef", "Error", "IsVariant", "TryFrom", "TryInto"):
        add(d, "union", "union U { a: u8, b: u16 }")
    for d in ("AddAssign", "Sum", "Constructor", "MulAssign", "Deref", "Index", "IntoIterator"):
        add(d, "enum", "enum X { A(u8), B }")
    add("Add", "unit struct", "struct S;")
    add("Not", "unit struct", "struct S;")
    add("FromStr", "two fields", "struct S(u8, u16);")
    add("FromStr", "enum with fields", "enum X { A(u8), B }")
    return C


# ---- Part 3: for the derives sharing the flag-style attribute parser, EVERY parameter sequence up to a length bound:
# whatever the derive accepts must be a well-formed, non-repeating, non-contradictory sentence of the documented grammar
P3_TOK = ["ignore", "forward", "owned", "ref", "ref_mut", "source", "backtrace", "not(source)", "not(backtrace)", "not(forward)", "x", "skip"]
P3_POS = {   # (derive, position) -> (template, documented parameters)
    ("Deref", "item"): ("#[deref(@)] struct S(Box<u8>);", {"forward"}),
    ("Deref", "field"): ("struct S { #[deref(@)] a: Box<u8>, b: u8 }", {"forward", "ignore"}),
    ("DerefMut", "field"): ("struct S { #[deref_mut(@)] a: Box<u8>, b: u8 }", {"forward", "ignore"}),
    ("Index", "field"): ("struct S { #[index(@)] a: Vec<u8>, b: u8 }", {"ignore"}),
    ("IndexMut", "field"): ("struct S { #[index_mut(@)] a: Vec<u8>, b: u8 }", {"ignore"}),
    ("IntoIterator", "item"): ("#[into_iterator(@)] struct S(Vec<u8>);", {"owned", "ref", "ref_mut"}),
    ("IntoIterator", "field"): ("struct S { #[into_iterator(@)] a: Vec<u8>, b: u8 }", {"owned", "ref", "ref_mut", "ignore"}),
    ("IsVariant", "variant"): ("enum E { #[is_variant(@)] A, B }", {"ignore"}),
    ("TryInto", "item"): ("#[try_into(@)] enum E { A(u8), B }", {"owned", "ref", "ref_mut", "ignore"}),
    ("TryInto", "variant"): ("enum E { #[try_into(@)] A(u8), B(u16) }", {"owned", "ref", "ref_mut", "ignore"}),
    ("TryInto", "field"): ("enum E { A(#[try_into(@)] u8, u16), B }", {"ignore"}),
    ("Unwrap", "item"): ("#[unwrap(@)] enum E { A(u8), B }", {"owned", "ref", "ref_mut", "ignore"}),
    ("Unwrap", "variant"): ("enum E { #[unwrap(@)] A(u8), B }", {"owned", "ref", "ref_mut", "ignore"}),
    ("TryUnwrap", "item"): ("#[try_unwrap(@)] enum E { A(u8), B }", {"owned", "ref", "ref_mut", "ignore"}),
    ("TryUnwrap", "variant"): ("enum E { #[try_unwrap(@)] A(u8), B }", {"owned", "ref", "ref_mut", "ignore"}),
    ("Error", "field"): ("struct S { #[error(@)] a: E, b: u8 }", {"source", "backtrace", "not(source)", "not(backtrace)", "ignore"}),
    ("Error", "variant"): ("enum X { #[error(@)] A { a: E }, B }", {"ignore"}),
    ("Error", "item"): ("#[error(@)] struct S { a: E }", {"ignore"}),
    ("Mul", "item"): ("#[mul(@)] struct S(u8);", {"forward"}),
    ("Shr", "item"): ("#[shr(@)] struct S(u8);", {"forward"}),
    ("MulAssign", "item"): ("#[mul_assign(@)] struct S(u8);", {"forward"}),
    ("Mul", "enum"): ("#[mul(@)] enum E { A(u8) }", {"forward"}),
}


def shifted_corruptions():
    """The offending attribute moved away from the first position: a clean field / variant is put in front of (and behind) the member
    that carries it.  Validation loops that stop after the first member, or look at position 0 only, accept these."""
    out = []
    for d, cls, item, rustc in corruptions():
        m = re.match(r"^(.*\bstruct S(?:<[^>]*>)? \{ )((?:#\[[^\]]*(?:\[[^\]]*\])?[^\]]*\] )+\w+: [^,}]+)(.*\})$", item)
        if m:
            out.append((d, cls + " (on a later field)", "%sz0: i8, %s, z9: i8%s" % (m.group(1), m.group(2).rstrip(), m.group(3) if m.group(3).strip().startswith("}") else ", " + m.group(3).lstrip(", ")), rustc))
            continue
        m = re.match(r"^(.*\bstruct S(?:<[^>]*>)?\()((?:#\[[^\]]*(?:\[[^\]]*\])?[^\]]*\] )+[^,)]+)(.*\);)$", item)
        if m:
            out.append((d, cls + " (on a later field)", "%si8, %s%s" % (m.group(1), m.group(2), m.group(3)), rustc))
            continue
        m = re.match(r"^(.*\benum E(?:<[^>]*>)? \{ )((?:#\[[^\]]*(?:\[[^\]]*\])?[^\]]*\] )+\w+.*)$", item)
        if m:
            out.append((d, cls + " (on a later variant)", "%sZ0(i8), %s" % (m.group(1), m.group(2)), rustc))
    return out


def part3(chk, thorough):
    L = 4 if thorough else 3
    reqs, meta = [], []
    for (d, pos), (tmpl, allowed) in P3_POS.items():
        for k in range(1, L + 1):
            for seq in itertools.product(P3_TOK, repeat=k):
                reqs.append({"derive": d, "item": tmpl.replace("@", ", ".join(seq))})
                meta.append((d, pos, seq, allowed))
    res = svc(reqs)
    accepted = 0
    for (d, pos, seq, allowed), r, q in zip(meta, res, reqs):
        chk.count(states=1, transitions=1)
        if r["k"] != "ok":
            if r["k"] == "panic" and r.get("class") != "deliberate":
                chk.violation("part 3: internal failure (%s %s)" % (d, pos), q["item"], r.get("msg", "") + " " + r.get("loc", ""))
            continue
        accepted += 1
        base = [t[4:-1] if t.startswith("not(") else t for t in seq]
        allowed = set(allowed) | ({"not(forward)"} if "forward" in allowed else set())   # the negated form of a documented flag
        problem = None
        if any(t not in allowed for t in seq):
            problem = "parameter outside the documented set accepted"
        elif len(set(base)) != len(base):
            problem = "repeated or contradictory parameter accepted"
        elif "ignore" in seq and len(seq) > 1:
            problem = "`ignore` combined with other parameters accepted"
        if problem:
            chk.outcome("part3-silently-accepted")
            chk.violation("silently accepted: %s (%s, %s position)" % (problem, d, pos), q["item"], "accepted parameter sequence: %s; documented: %s" % (list(seq), sorted(allowed)))
        else:
            chk.outcome("part3-accepted-wellformed")
    chk.part("3_flag_parameter_sequences", positions=len(P3_POS), tokens=len(P3_TOK), max_len=L, sequences=len(reqs), accepted=accepted,
             oracle="every accepted sequence uses only documented parameters of that position, none twice (also not as X and not(X)), and `ignore` alone")


def part4(chk, thorough):
    """An attribute that is nobody's business (`#[doc(hidden)]`, `#[allow(dead_code)]`, `#[rustfmt::skip]`) on the item, on every
    variant and on every field, before and after their own attributes, is the weakest synonymous spelling of all: the outcome must
    not change.  Run over the cross-property corpus (every derive x supported shapes x documented attribute spellings)."""
    import c19
    corpus = c19.corpus_requests(thorough)
    reqs = []
    for k, q in enumerate(corpus):
        for which in ((0, 1, 2) if thorough else (k % 3,)):
            reqs.append({"derive": q["derive"], "item": q["item"], "foreign": which})
    # the helper attributes of OTHER derives are unrelated too (a derive that finds its attributes by prefix, or by the wrong name,
    # starts reacting to them): two per item in the quick tier, chosen round-robin; all in thorough
    helpers = ["from", "into", "as_ref", "as_mut", "deref", "deref_mut", "index", "index_mut", "into_iterator", "try_into", "try_from", "unwrap", "try_unwrap", "is_variant",
               "error", "display", "debug", "mul", "mul_assign", "from_str", "constructor", "add", "not", "sum", "binary", "lower_hex", "pointer"]
    own = {"DerefMut": {"deref_mut"}, "IndexMut": {"index_mut"}, "TryFrom": {"try_from"}}
    import re as _re
    for k, q in enumerate(corpus):
        mine = own.get(q["derive"], set()) | {_re.sub(r"(?<!^)(?=[A-Z])", "_", q["derive"]).lower()} | set(_re.findall(r"#\[(\w+)", q["item"]))
        if q["derive"] in ("Div", "Rem", "Shr", "Shl"):
            mine |= {"mul"}
        if q["derive"] in ("DivAssign", "RemAssign", "ShrAssign", "ShlAssign"):
            mine |= {"mul_assign"}
        cand = [h for h in helpers if h not in mine]
        picks = cand if thorough else [cand[k % len(cand)], cand[(k * 7 + 3) % len(cand)]]
        for j, h in enumerate(picks):
            reqs.append({"derive": q["derive"], "item": q["item"], "foreign": 0, "foreign_text": "#[%s%s]" % (h, ("", "(forward)", "(ignore)")[(k + j) % 3])})
    res = svc(reqs)
    n = 0
    for q, r in zip(reqs, res):
        if "foreign_same" not in r:
            continue
        n += 1
        chk.count(states=1, transitions=1)
        if r["foreign_same"]:
            chk.outcome("unrelated-attributes-ignored")
            continue
        chk.outcome("unrelated-attributes-change-outcome")
        o2 = r.get("foreign_out", {})
        chk.violation("an unrelated attribute changes the outcome (%s): %s -> %s" % (q["derive"], r["k"], o2.get("k")),
                      {"derive": q["derive"], "item": q["item"], "attribute": q.get("foreign_text") or ["#[doc(hidden)]", "#[allow(dead_code)]", "#[rustfmt::skip]"][q["foreign"]]},
                      "plain: %s | decorated: %s" % ((r.get("out") or r.get("msg") or "")[:600], (o2.get("out") or o2.get("msg") or "")[:600]))
    chk.part("4_unrelated_attributes", corpus=len(corpus), compared=n, attributes=["#[doc(hidden)]", "#[allow(dead_code)]", "#[rustfmt::skip]"],
             placement="on the item, and before and after the own attributes of every variant and every field", per_item="one of the three (quick) / all three (thorough)")


def part5(chk, thorough):
    """Whitespace between tokens is no part of any spelling: the item written with the least whitespace the lexer allows (`_0,*_1`:
    punctuation glued together wherever that makes no other token) and with a blank between all tokens must give the same outcome.
    The two texts differ from the original in the `Spacing` (Joint / Alone) of punctuation only, which the engine verifies before
    comparing (request key `respace`)."""
    import c19
    corpus = c19.corpus_requests(thorough)
    reqs = [{"derive": q["derive"], "item": q["item"], "respace": tight} for q in corpus for tight in (True, False)]
    res = svc(reqs)
    n = skipped = 0
    for q, r in zip(reqs, res):
        if "respace_same" not in r:
            skipped += 1
            continue
        n += 1
        chk.count(states=1, transitions=1)
        if r["respace_same"]:
            chk.outcome("whitespace-ignored")
            continue
        chk.outcome("whitespace-changes-outcome")
        o2 = r.get("respace_out", {})
        chk.violation("whitespace between tokens changes the outcome (%s, %s): %s -> %s" % (q["derive"], "tight" if q["respace"] else "loose", r["k"], o2.get("k")),
                      {"derive": q["derive"], "item": q["item"], "respelled": r.get("respace_item")},
                      "original: %s | respelled: %s" % ((r.get("out") or r.get("msg") or "")[:600], (o2.get("out") or o2.get("msg") or "")[:600]))
    chk.part("5_whitespace", corpus=len(corpus), compared=n, not_comparable=skipped, spellings=["least whitespace the lexer allows", "a blank between all tokens"])


def run(chk, tier):
    thorough = tier == "thorough"
    # ---------------- Part 1: synonymous rewrites
    R = all_spellings()
    reqs, owner = [], []
    for gi, (d, desc, forms) in enumerate(R):
        for f in forms:
            reqs.append({"derive": d, "item": f, "canon": True})
            owner.append(gi)
    res = svc(reqs)
    by_group = {}
    for q, r, gi in zip(reqs, res, owner):
        by_group.setdefault(gi, []).append((q, r))
    pairs = 0
    for gi, members in by_group.items():
        d, desc, forms = R[gi]
        base_q, base_r = members[0]
        for q, r in members:
            chk.count(states=1, transitions=1)
            if r["k"] != "ok":
                chk.outcome("rewrite-rejected")
                chk.violation("documented spelling rejected: %s (%s)" % (desc, d), q["item"], r.get("msg", "")[:300])
                continue
            if base_r["k"] != "ok":
                continue
            pairs += 1
            if r["canon"] == base_r["canon"]:
                chk.outcome("rewrite-equal/" + d)
            else:
                chk.outcome("rewrite-differs")
                a, b = base_r["canon"], r["canon"]
                diff = [x for x in b if x not in a][:1] + [x for x in a if x not in b][:1]
                chk.violation("synonymous spellings give different implementations: %s (%s)" % (desc, d), {"a": base_q["item"], "b": q["item"]}, "items only in one expansion: %s" % [x[:400] for x in diff])
    chk.part("1_rewrites", groups=len(R), spellings=len(reqs), compared_pairs=pairs,
             rewrites=["skip<->ignore", "bound<->bounds<->where", "one list <-> several attributes", "trailing commas", "order of independent attributes / arguments", "mark one <-> ignore the others"])
    for gi in (0, 6, len(R) // 2):
        chk.sample({"derive": R[gi][0], "rewrite": R[gi][1], "spellings": R[gi][2][:3]})
    # ---------------- Part 2: corruptions
    C = corruptions() + shifted_corruptions()
    reqs = [{"derive": d, "item": (item if d != "Error" else "#[derive(Debug)] " * 0 + item)} for d, cls, item, rustc in C]
    res = svc(reqs)
    need_rustc = []
    for (d, cls, item, rustc), r in zip(C, res):
        chk.count(states=1, transitions=1)
        if r["k"] == "err" or (r["k"] == "panic" and r.get("class") == "deliberate"):
            chk.outcome("corruption-rejected/" + ("diagnostic" if r["k"] == "err" else "panic-message"))
            continue
        if r["k"] == "ok" and rustc:
            need_rustc.append((d, cls, item))
            continue
        if r["k"] == "ok":
            chk.outcome("corruption-accepted")
            # known finding: `#[from(..)]` on an enum ITEM is never looked at (the repository's own tests/generics.rs writes it)
            kid = "c17-from-attribute-on-enum-item-ignored" if (d == "From" and cls.startswith("attribute on the enum itself")) else None
            chk.violation("silently accepted: %s (%s)" % (cls, d), item, "the derive expanded without a diagnostic", known_id=kid)
        else:
            chk.outcome("corruption-" + r["k"])
            chk.violation("corruption handled by %s: %s (%s)" % (r["k"], cls, d), item, r.get("msg", "")[:200] + " " + r.get("loc", ""))
    # corrupted arguments that are syntactically types: rustc must reject the real build
    cases = []
    for k, (d, cls, item) in enumerate(need_rustc):
        cases.append(Case("c%d" % k, "#[allow(unused_imports)] use super::*;\n#[derive(derive_more::%s)] %s" % (d, item), expect="fail", has_run=False, meta=dict(d=d, cls=cls, item=item)))
    if cases:
        eng = CompileEngine("C17", mode="check", per_bin=8)
        results = eng.run_cases(cases)
        for c in cases:
            r = results[c.cid]
            chk.count(states=1, transitions=1)
            if r.compile == "error":
                chk.outcome("corruption-rejected/rustc")
            else:
                chk.outcome("corruption-accepted")
                chk.violation("silently accepted (rustc too): %s (%s)" % (c.meta["cls"], c.meta["d"]), c.meta["item"], "the program compiled")
    part3(chk, thorough)
    part4(chk, thorough)
    part5(chk, thorough)
    chk.part("2_corruptions", corruptions=len(C), decided_by_rustc=len(need_rustc),
             classes=sorted({cls.split(" `")[0] for _, cls, _, _ in C})[:40])
    chk.sample({"corruption": C[3][2], "class": C[3][1], "verdict": "rejected"})
    chk.assumptions += ["attribute grammars and the list of synonymous spellings are transcribed from impl/doc/*.md and the CHANGELOG (legacy forms)",
                        "implementations are compared as multisets of items with where-predicates sorted (order of impls and predicates is not observable)",
                        "a deliberate diagnostic panic (panic!/assert! with a message) counts as a diagnostic"]
