"""C03 - format literals are interpreted exactly as std::fmt interprets them (DESIGN.md §3 C03)."""
import json
import subprocess

from common import MachineryError, base_env, inproc_bin, run as sh
from compile_engine import Case, CompileEngine


def classify(sig):
    if sig.startswith("[lone-dot-precision]"):
        return "c03-lone-dot-precision"
    if "(enum-level-unused)" in sig:
        return "c03-unused-enum-level-literal"
    return None


def run(chk, tier):
    exe = inproc_bin(nightly=True)
    env = base_env()
    sysroot = sh(["rustc", "+nightly", "--print", "sysroot"], check=True).stdout.strip()
    env["LD_LIBRARY_PATH"] = sysroot + "/lib:" + env.get("LD_LIBRARY_PATH", "")
    p = subprocess.run([exe, "c03", "--tier", tier], stdout=subprocess.PIPE, stderr=subprocess.PIPE, text=True, env=env, timeout=3400)
    if p.returncode != 0:
        raise MachineryError("c03 explorer failed: rc=%s %s" % (p.returncode, p.stderr[-2000:]))
    d = json.loads(p.stdout.strip().splitlines()[-1])
    chk.count(states=d["strings"], transitions=d["checks"])
    for k, v in d["outcomes"].items():
        chk.outcome(k, v)
    for v in d["violations"]:
        chk.outcome("disagree/" + v["signature"][:60], v["count"])
        if v["signature"].startswith("machinery"):
            raise MachineryError(v["signature"] + ": " + v["witness"])
        chk.violation(v["signature"], v["witness"], v["detail"], known_id=classify(v["signature"]))
    for s in d["samples"]:
        chk.sample(s)
    for k, v in d["parts"].items():
        v.pop("alphabet", None)
        chk.part(k, **v)
    # ---- bind the reference parser (nightly rustc_parse_format) to the *stable* rustc used by the tests:
    # literals from every agreement/disagreement class compiled as format_args!; accept/reject must match.
    lits = {
        # (literal, std accepts?, number of positional args to supply)
        "{}": True, "{:?}": True, "{0 }": True, "{ }": True, "{0 :>4 }": True, "{:.}": True, "{:.*}": True, "{:1$}": True,
        "{:#x?}": True, "{:é^+#010.2e}": True, "{0:.*}": True, "{:x? }": True, "{{}}": True, "{:>1$.*}": True,
        "{": False, "}": False, "{ 0}": False, "{:q}": False, "{:d}": False, "{0:5 x}": False, "{:?x}": False, "{:.$}": False,
        "{0$}": False, "{:99999999999999999999}": False, "{:#?#}": False, "{:<<}": True, "{:}<}": True,
    }
    lines = []
    cases = []
    for i, (lit, ok) in enumerate(lits.items()):
        body = 'pub fn run(r: &mut super::R) { let _ = format!(%s, 1usize, 2usize, 3usize, 4usize); r.check("compiled", true); }' % json.dumps(lit, ensure_ascii=False)
        # unused-argument errors are not grammar errors: use every argument through an extra literal
        body = 'pub fn run(r: &mut super::R) { let s = format!(concat!(%s, "{0:.0}{1:.0}{2:.0}{3:.0}"), 1usize, 2usize, 3usize, 4usize); r.check("compiled", s.len() < 1000); }' % json.dumps(lit, ensure_ascii=False)
        cases.append(Case("l%d" % i, body, expect="ok" if ok else "fail", meta={"lit": lit, "ok": ok}))
    eng = CompileEngine("C03", per_bin=40)
    res = eng.run_cases(cases)
    for c in cases:
        r = res[c.cid]
        got_ok = r.compile == "ok"
        chk.count(states=1, transitions=1)
        if got_ok != c.meta["ok"]:
            raise MachineryError("reference parser (nightly rustc_parse_format) and stable rustc's format! disagree on %r: reference says accept=%s, stable rustc compile=%s %s" % (
                c.meta["lit"], c.meta["ok"], r.compile, [x["message"] for x in r.diags[:2]]))
    chk.part("reference_bound_to_stable_rustc", literals=len(cases), note="every disagreement class and a stratified set of agreements compiled as format! under the stable toolchain; accept/reject must match the nightly reference parser")
    chk.assumptions += ["reference = rustc_parse_format of the installed nightly, cross-checked against the stable toolchain's format! on %d literals" % len(cases),
                        "the derive's own view (implicit counter, traits) is read off where-clauses of expansions of a 6-parameter probe type; placeholders naming nothing in the probe carry no expectation"]
