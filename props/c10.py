"""C10 - derived operators act field-wise with operand order preserved (DESIGN.md §3 C10).

Operand type: a free term algebra (`Tg<I>` wraps a `Term`; every operator call builds the term
`op(lhs, rhs)`), so any swap of operands or fields, wrong method, or reuse of a field is visible."""
import itertools

from compile_engine import Case, CompileEngine

BIN = [("Add", "add"), ("Sub", "sub"), ("BitAnd", "bitand"), ("BitOr", "bitor"), ("BitXor", "bitxor")]
MUL = [("Mul", "mul"), ("Div", "div"), ("Rem", "rem"), ("Shr", "shr"), ("Shl", "shl")]
UN = [("Not", "not"), ("Neg", "neg")]


def _impls():
    out = []
    for tr, m in BIN + MUL:
        out.append("""
impl<const I: usize> ::core::ops::{tr} for Tg<I> {{ type Output = Tg<I>; fn {m}(self, r: Tg<I>) -> Tg<I> {{ Tg(bin("{m}", self.0, r.0)) }} }}
impl<const I: usize> ::core::ops::{tr}Assign for Tg<I> {{ fn {m}_assign(&mut self, r: Tg<I>) {{ let l = ::core::mem::replace(&mut self.0, Term::Leaf(0)); self.0 = bin("{m}", l, r.0); }} }}
""".format(tr=tr, m=m))
    for tr, m in MUL:
        out.append("""
impl<const I: usize> ::core::ops::{tr}<Sc> for Tg<I> {{ type Output = Tg<I>; fn {m}(self, r: Sc) -> Tg<I> {{ Tg(bin("{m}", self.0, Term::Leaf(r.0))) }} }}
impl<const I: usize> ::core::ops::{tr}Assign<Sc> for Tg<I> {{ fn {m}_assign(&mut self, r: Sc) {{ let l = ::core::mem::replace(&mut self.0, Term::Leaf(0)); self.0 = bin("{m}", l, Term::Leaf(r.0)); }} }}
""".format(tr=tr, m=m))
    # an operand type that can ONLY be combined with the scalar (no `Ts op Ts`): the scalar derives must not ask for more
    for tr, m in MUL:
        out.append("""
impl<const I: usize> ::core::ops::{tr}<Sc> for Ts<I> {{ type Output = Ts<I>; fn {m}(self, r: Sc) -> Ts<I> {{ Ts(bin("{m}", self.0, Term::Leaf(r.0))) }} }}
impl<const I: usize> ::core::ops::{tr}Assign<Sc> for Ts<I> {{ fn {m}_assign(&mut self, r: Sc) {{ let l = ::core::mem::replace(&mut self.0, Term::Leaf(0)); self.0 = bin("{m}", l, Term::Leaf(r.0)); }} }}
""".format(tr=tr, m=m))
    for tr, m in UN:
        out.append("""
impl<const I: usize> ::core::ops::{tr} for Tg<I> {{ type Output = Tg<I>; fn {m}(self) -> Tg<I> {{ Tg(Term::Un("{m}", Box::new(self.0))) }} }}
""".format(tr=tr, m=m))
    # decoys: INHERENT methods named like the operator traits' methods, with the same signatures, that do something else.  `a op b`
    # never calls them; an expansion that writes `a.add(b)` instead of `Add::add(a, b)` does (inherent methods win method resolution).
    dec = []
    for tr, m in BIN + MUL:
        dec.append('pub fn {m}(self, _: Self) -> Self {{ Tg(Term::Leaf(666)) }} pub fn {m}_assign(&mut self, _: Self) {{ self.0 = Term::Leaf(667); }}'.format(m=m))
    for tr, m in UN:
        dec.append('pub fn {m}(self) -> Self {{ Tg(Term::Leaf(668)) }}'.format(m=m))
    out.append("#[allow(clippy::should_implement_trait)] impl<const I: usize> Tg<I> { %s }\n" % " ".join(dec))
    return "".join(out)


PRELUDE = r'''
#[derive(Clone, Debug, PartialEq)]
pub enum Term { Leaf(u32), Un(&'static str, Box<Term>), Bin(&'static str, Box<Term>, Box<Term>) }
pub fn bin(op: &'static str, l: Term, r: Term) -> Term { Term::Bin(op, Box::new(l), Box::new(r)) }
pub fn un(op: &'static str, l: Term) -> Term { Term::Un(op, Box::new(l)) }
#[derive(Clone, Debug, PartialEq)]
pub struct Tg<const I: usize>(pub Term);
#[derive(Clone, Copy, Debug, PartialEq)]
pub struct Sc(pub u32);
#[derive(Clone, Debug, PartialEq)]
pub struct Ts<const I: usize>(pub Term);
pub fn lf<const I: usize>(n: u32) -> Tg<I> { Tg(Term::Leaf(n)) }
impl<const I: usize> ::core::iter::Sum for Tg<I> { fn sum<It: Iterator<Item = Self>>(it: It) -> Self { it.fold(Tg(Term::Leaf(1000 + I as u32)), |a, b| a + b) } }
impl<const I: usize> ::core::iter::Product for Tg<I> { fn product<It: Iterator<Item = Self>>(it: It) -> Self { it.fold(Tg(Term::Leaf(2000 + I as u32)), |a, b| a * b) } }
''' + _impls()


def field_types(n, typing):
    if typing == "distinct":
        return ["Tg<%d>" % i for i in range(n)]
    if typing == "same":
        return ["Tg<0>"] * n
    return ["T"] * n  # generic / generic_where


def mk(named, names, vals):
    """constructor expression for fields (list of Rust exprs)."""
    if named:
        return "{ " + ", ".join("%s: %s" % (n, v) for n, v in zip(names, vals)) + " }"
    return "(" + ", ".join(vals) + ")"


def struct_case(cid, named, n, typing, forward):
    spelled_not = forward == "not"     # the documented explicit spelling of the default (scalar) mode
    forward = forward is True
    # named fields: declaration order differs from alphabetical order, some names start with `_`, one is a raw identifier
    pool = ["zeta", "_under", "alpha", "r#type", "mid", "_0x", "beta", "Upper", "_", "f10", "f2"]
    names = ([pool[i] if pool[i] != "_" else "_u" for i in range(n)]) if named else [str(i) for i in range(n)]
    tys = field_types(n, typing)
    gen_decl = "<T>" if typing.startswith("generic") else ""
    inst = "<Tg<0>>" if typing.startswith("generic") else ""
    body = ("{ " + ", ".join("pub %s: %s" % (a, t) for a, t in zip(names, tys)) + " }") if named else (
        "(" + ", ".join("pub " + t for t in tys) + ");")
    if typing == "generic_where":
        # the type's own where-clause (in its two syntactic positions) must be carried onto every impl
        body = (" where T: Clone " + body) if named else (body[:-1] + " where T: Clone;")
    derives = [d for d, _ in BIN] + [d + "Assign" for d, _ in BIN] + [d for d, _ in MUL] + [d + "Assign" for d, _ in MUL] + \
              [d for d, _ in UN] + ["Sum"] + (["Product"] if forward else [])
    attrs = []
    if spelled_not:
        for _, m in MUL:
            attrs.append("#[%s(not(forward))]" % m)
            attrs.append("#[%s_assign(not(forward))]" % m)
    elif forward:
        for _, m in MUL:
            attrs.append("#[%s(forward)]" % m)
            attrs.append("#[%s_assign(forward)]" % m)
    tyidx = [0 if typing != "distinct" else i for i in range(n)]
    L = ["lf::<%d>(%d)" % (tyidx[i], 10 + i) for i in range(n)]
    Rv = ["lf::<%d>(%d)" % (tyidx[i], 20 + i) for i in range(n)]
    X = ["lf::<%d>(%d)" % (tyidx[i], 30 + i) for i in range(n)]
    lines = []
    lines.append("let a = || S%s;" % mk(named, names, L))
    lines.append("let b = || S%s;" % mk(named, names, Rv))
    lines.append("let c = || S%s;" % mk(named, names, X))

    def tg(i, term):
        return "Tg::<%d>(%s)" % (tyidx[i], term)

    def leaf(k):
        return "Term::Leaf(%d)" % k

    for tr, m in BIN + (MUL if forward else []):
        exp = [tg(i, 'bin("%s", %s, %s)' % (m, leaf(10 + i), leaf(20 + i))) for i in range(n)]
        lines.append('r.eq("%s: a %s b", ::core::ops::%s::%s(a(), b()), S%s);' % (tr, m, tr, m, mk(named, names, exp)))
        lines.append('{ let mut x = a(); ::core::ops::%sAssign::%s_assign(&mut x, b()); r.eq("%sAssign: a %s= b", x, S%s); }' % (
            tr, m, tr, m, mk(named, names, exp)))
    if not forward:
        for tr, m in MUL:
            exp = [tg(i, 'bin("%s", %s, %s)' % (m, leaf(10 + i), leaf(7))) for i in range(n)]
            lines.append('r.eq("%s scalar: a %s 7", ::core::ops::%s::%s(a(), Sc(7)), S%s);' % (tr, m, tr, m, mk(named, names, exp)))
            lines.append('{ let mut x = a(); ::core::ops::%sAssign::%s_assign(&mut x, Sc(7)); r.eq("%sAssign scalar", x, S%s); }' % (
                tr, m, tr, mk(named, names, exp)))
    for tr, m in UN:
        exp = [tg(i, 'un("%s", %s)' % (m, leaf(10 + i))) for i in range(n)]
        lines.append('r.eq("%s: %s a", ::core::ops::%s::%s(a()), S%s);' % (tr, m, tr, m, mk(named, names, exp)))
    # Sum / Product over 0..3 elements
    for tr, m, base in [("Sum", "add", 1000)] + ([("Product", "mul", 2000)] if forward else []):
        for k in range(0, 4):
            elems = ["a()", "b()", "c()"][:k]
            terms = []
            for i in range(n):
                t = leaf(base + tyidx[i])
                for e in range(k):
                    t = 'bin("%s", %s, %s)' % (m, t, leaf(10 * (e + 1) + i))
                terms.append(tg(i, t))
            lines.append('r.eq("%s over %d elements", <SS as ::core::iter::%s>::%s(vec![%s].into_iter()), S%s);' % (
                tr, k, tr, tr.lower(), ", ".join(elems), mk(named, names, terms)))
    mod = """use super::*;
#[derive(Clone, Debug, PartialEq, %s)]
%s
pub struct S%s%s
type SS = S%s;
pub fn run(r: &mut R) {
    %s
}""" % (", ".join("derive_more::" + d for d in derives), "\n".join(attrs), gen_decl, body, inst, "\n    ".join(lines))
    src = "%s struct S%s%s [%s]" % (" ".join(attrs[:1]), gen_decl, body, "all operator derives")
    return Case(cid, mod, meta={"kind": "struct", "named": named, "n": n, "typing": typing, "forward": forward, "src": src})


def scalar_only_case(cid, named, n, generic, spelled=False):
    """Scalar Mul-like derives on a type whose fields support the operator with the scalar only."""
    attrs = "".join("#[%s(not(forward))] #[%s_assign(not(forward))] " % (m, m) for _, m in MUL) if spelled else ""
    pool = ["zeta", "_under", "alpha", "r#type", "mid", "_0x", "beta", "Upper", "_u", "f10", "f2"]
    names = pool[:n] if named else [str(i) for i in range(n)]
    tys = ["T"] * n if generic else ["Ts<%d>" % i for i in range(n)]
    idx = [0] * n if generic else list(range(n))
    body = ("{ " + ", ".join("pub %s: %s" % (a, t) for a, t in zip(names, tys)) + " }") if named else ("(" + ", ".join("pub " + t for t in tys) + ");")
    derives = [d for d, _ in MUL] + [d + "Assign" for d, _ in MUL]
    val = "S%s" % mk(named, names, ["Ts::<%d>(Term::Leaf(%d))" % (idx[i], 10 + i) for i in range(n)])
    lines = []
    for tr, m in MUL:
        exp = mk(named, names, ['Ts::<%d>(bin("%s", Term::Leaf(%d), Term::Leaf(7)))' % (idx[i], m, 10 + i) for i in range(n)])
        lines.append('r.eq("%s scalar on scalar-only fields", ::core::ops::%s::%s(%s, Sc(7)), S%s);' % (tr, tr, m, val, exp))
        lines.append('{ let mut x = %s; ::core::ops::%sAssign::%s_assign(&mut x, Sc(7)); r.eq("%sAssign scalar on scalar-only fields", x, S%s); }' % (val, tr, m, tr, exp))
    mod = """use super::*;
#[derive(Clone, Debug, PartialEq, %s)]
%s
pub struct S%s%s
pub fn run(r: &mut R) {
    %s
}""" % (", ".join("derive_more::" + d for d in derives), attrs, "<T>" if generic else "", body, "\n    ".join(lines))
    src = "%sstruct S%s%s [scalar Mul-like derives; field type implements Op<Scalar> only]" % (attrs[:20] + ("... " if attrs else ""), "<T>" if generic else "", body)
    return Case(cid, mod, meta={"kind": "struct", "named": named, "n": n, "typing": "scalar-only" + ("/generic" if generic else ""), "forward": False, "src": src})


VK = {"unit": [], "t0": [], "n0": [], "t11": list(range(11)), "n11": list(range(11)), "t1": [0], "t2": [0, 1], "n2": [0, 1], "n1": [0], "t3": [0, 1, 2]}


# variant and field names: not in alphabetical order, with a leading underscore, raw
VN = ["Zeta", "_Under", "Alpha", "r#Type"]
GN = ["zeta", "_under", "alpha", "r#type", "mid", "_0x", "beta", "Upper", "_u", "f10", "f2"]


def enum_case(cid, kinds, typing, forward):
    """Add-like (and Mul-like under forward) + Not/Neg on an enum; every ordered pair of values."""
    variants, mkl, mkr = [], [], []
    for vi, k in enumerate(kinds):
        idx = VK[k]
        tys = field_types(len(idx), typing if typing in ("same", "generic") else "distinct")
        named = k.startswith("n")
        name = VN[vi]
        if k == "unit":
            variants.append(name)
        elif named:
            variants.append(name + " { " + ", ".join("%s: %s" % (GN[i], t) for i, t in zip(idx, tys)) + " }")
        else:
            variants.append(name + "(" + ", ".join(tys) + ")")

    tyidx = lambda i: 0 if typing in ("same", "generic") else i
    # a generic enum: every field is `T`, the type's own where-clause and a lifetime parameter must be carried onto every impl
    generic = typing == "generic"
    GEN = "<T, const N: usize> where T: Clone"
    EP = "EE::" if generic else "E::"

    def val(vi, k, base):
        idx = VK[k]
        named = k.startswith("n")
        if k == "unit":
            return EP + VN[vi]
        vals = ["lf::<%d>(%d)" % (tyidx(i), base + 10 * vi + i) for i in idx]
        return "%s%s%s" % (EP, VN[vi], mk(named, [GN[i] for i in idx], vals))

    def expval(vi, k, f):
        idx = VK[k]
        named = k.startswith("n")
        vals = ["Tg::<%d>(%s)" % (tyidx(i), f(i)) for i in idx]
        return "%s%s%s" % (EP, VN[vi], mk(named, [GN[i] for i in idx], vals))

    has_unit = "unit" in kinds
    lines = []
    ops = BIN + (MUL if forward else [])
    for tr, m in ops:
        for (i, ki), (j, kj) in itertools.product(enumerate(kinds), repeat=2):
            call = "::core::ops::%s::%s(%s, %s)" % (tr, m, val(i, ki, 100), val(j, kj, 500))
            if i != j:
                lines.append('r.check("%s V%d,V%d -> Mismatch", matches!(%s, Err(derive_more::BinaryError::Mismatch(_))));' % (tr, i, j, call))
            elif ki == "unit":
                lines.append('r.check("%s V%d,V%d -> Unit", matches!(%s, Err(derive_more::BinaryError::Unit(_))));' % (tr, i, j, call))
            else:
                exp = expval(i, ki, lambda f: 'bin("%s", Term::Leaf(%d), Term::Leaf(%d))' % (m, 100 + 10 * i + f, 500 + 10 * i + f))
                lines.append('r.eq("%s V%d,V%d", %s.ok(), Some(%s));' % (tr, i, j, call, exp))
    for tr, m in UN:
        for i, ki in enumerate(kinds):
            call = "::core::ops::%s::%s(%s)" % (tr, m, val(i, ki, 100))
            if ki == "unit":
                lines.append('r.check("%s unit V%d -> UnitError", matches!(%s, Err(derive_more::UnitError { .. })));' % (tr, i, call))
            else:
                exp = expval(i, ki, lambda f: 'un("%s", Term::Leaf(%d))' % (m, 100 + 10 * i + f))
                if has_unit:
                    lines.append('r.eq("%s V%d", %s.ok(), Some(%s));' % (tr, i, call, exp))
                else:
                    lines.append('r.eq("%s V%d", %s, %s);' % (tr, i, call, exp))
    derives = [d for d, _ in ops] + [d for d, _ in UN]
    attrs = ["#[%s(forward)]" % m for _, m in MUL] if forward else []
    mod = """use super::*;
#[derive(Clone, Debug, PartialEq, %s)]
%s
#[allow(non_camel_case_types, non_snake_case)]
pub enum E%s { %s }
%s
pub fn run(r: &mut R) {
    %s
}""" % (", ".join("derive_more::" + d for d in derives), "\n".join(attrs),
        GEN if generic else "", ", ".join(variants), "type EE = E<Tg<0>, 3>;" if generic else "", "\n    ".join(lines))
    src = "%s enum E%s { %s }" % (" ".join(attrs[:1]), GEN if generic else "", ", ".join(variants))
    return Case(cid, mod, meta={"kind": "enum", "kinds": kinds, "typing": typing, "forward": forward, "src": src})


def run(chk, tier):
    thorough = tier == "thorough"
    cases = []
    nmax = 4 if thorough else 3
    for named in (False, True):
        for n in range(1, nmax + 1):
            for typing in ("distinct", "same", "generic", "generic_where"):
                if typing == "distinct" and n > 3:
                    continue
                if typing == "generic_where" and n > 2 and not thorough:
                    continue
                for forward in (False, True) + (("not",) if n <= 2 and (thorough or typing == "same") else ()):
                    cases.append(struct_case("s%d" % len(cases), named, n, typing, forward))
    # wide structs: two-digit field positions (any ordering of generated names or indices by text shows here)
    for named in (False, True):
        for typing in ("distinct", "same"):
            for forward in (False, True):
                cases.append(struct_case("s%d" % len(cases), named, 11, typing, forward))
    for named in (False, True):
        for n in (1, 2, 3):
            for generic in (False, True):
                cases.append(scalar_only_case("s%d" % len(cases), named, n, generic))
                if n <= 2:
                    cases.append(scalar_only_case("s%d" % len(cases), named, n, generic, spelled=True))
    chk.part("structs", shapes="tuple/named x 1..%d fields" % nmax, typings=["distinct", "same", "generic<T>", "generic<T> with a where-clause on the type", "fields that support the operator with the scalar only (concrete and generic<T>)"],
             modes=["scalar Mul-like", "scalar Mul-like spelled `not(forward)`", "forward"], programs=len(cases))
    e0 = len(cases)
    vk = ["unit", "t1", "t2", "n2"] + (["n1", "t3", "t0", "n0"] if thorough else [])
    combos = [k for n in range(1, (3 if thorough else 2) + 1) for k in itertools.product(vk, repeat=n)]
    # variants with an EMPTY field list (`V()`, `V {}`) are not unit variants: they combine like any other variant
    ek = ["t0", "n0"]
    combos += [(a,) for a in ek] + [p for a in ek for b in (["unit", "t1", "n2"] + ek) for p in ((a, b), (b, a))]
    combos += [("t11",), ("n11", "unit"), ("t11", "n11")]
    combos = list(dict.fromkeys(combos))
    vk = vk + ek
    if True:
        for kinds in combos:
            for typing in ("same", "distinct", "generic"):
                if typing == "generic" and (not any(VK[k] for k in kinds) or (len(kinds) > 2 and "t3" not in kinds)):
                    continue        # `T` must occur in a field; three-variant generic enums only with a three-field variant
                for forward in (False, True):
                    cases.append(enum_case("e%d" % len(cases), list(kinds), typing, forward))
    chk.part("enums", variant_kinds=vk, max_variants=3 if thorough else 2, programs=len(cases) - e0,
             pairs="every ordered pair of variant values per binary operator",
             typings=["same", "distinct", "generic `enum E<T, const N: usize> where T: Clone` (every field a T)"])
    eng = CompileEngine("C10", prelude=PRELUDE, per_bin=max(8, len(cases) // 16 + 1))
    results = eng.run_cases(cases)
    for c in cases:
        res = results[c.cid]
        chk.count(states=1, transitions=max(res.ncmp, 1))
        if res.compile == "ok" and res.run == "ok":
            chk.outcome("ok/%s/%s" % (c.meta["kind"], "forward" if c.meta["forward"] else "plain"))
            chk.sample({"type": c.meta["src"], "operator_results_compared": res.ncmp})
            continue
        chk.outcome("%s/%s" % (res.compile, res.run))
        if res.compile != "ok":
            msgs = sorted({d["message"] for d in res.diags})
            sig = "compile-error %s forward=%s: %s" % (c.meta["kind"], c.meta["forward"], msgs[0][:80])
            chk.violation(sig, c.meta["src"], "; ".join(msgs[:4]))
        else:
            first = res.detail.split("::", 1)[-1].strip().split(":")[0]
            chk.violation("wrong-result %s %s" % (c.meta["kind"], first), c.meta["src"], res.detail)
    chk.part("engine", bins_built=eng.bins_built, rounds=eng.rounds, build_s=round(eng.build_s, 1))
    chk.assumptions += [
        "abstraction: operands are terms of a free algebra with pairwise distinct leaves; expansions cannot inspect operand values (they only call trait methods), so equality of result terms for this valuation implies the field-wise law for all values (parametricity)",
        "Tg::<op>_assign builds the same term as Tg::<op>, so `a op= b` must equal `a op b` exactly when the derive applies the operator field-wise in order",
    ]
