"""C08 - From / Into / Constructor preserve field order and invert each other (DESIGN.md §3 C08)."""
import itertools
import re

from compile_engine import Case, CompileEngine

PRELUDE = r'''
use ::std::cell::Cell;
thread_local! { pub static CALLS: Cell<u32> = Cell::new(0); }
pub fn calls() -> u32 { CALLS.with(|c| c.replace(0)) }
pub fn adr<T: ?Sized>(x: &T) -> usize { x as *const T as *const u8 as usize }
/// field type: V = owner (variant / struct) tag, I = position tag
#[derive(Debug, PartialEq, Clone)] pub struct Fx<const V: usize, const I: usize>(pub u32);
/// a type every field type can be built from (one counted `From::from` call)
#[derive(Debug, PartialEq, Clone)] pub struct Gx<const V: usize, const I: usize>(pub u32);
impl<const V: usize, const I: usize> From<Gx<V, I>> for Fx<V, I> { fn from(g: Gx<V, I>) -> Self { CALLS.with(|c| c.set(c.get() + 1)); Fx(g.0 + 1) } }
/// a type every field type can be turned into
#[derive(Debug, PartialEq, Clone)] pub struct Hx<const V: usize, const I: usize>(pub u32);
// one-element tuples as conversion partners of a single field: `#[from((G,))]` / `#[into((H,))]` name the TYPE `(G,)` / `(H,)`
impl<const V: usize, const I: usize> From<(Gx<V, I>,)> for Fx<V, I> { fn from(g: (Gx<V, I>,)) -> Self { CALLS.with(|c| c.set(c.get() + 1)); Fx(g.0 .0 + 5) } }
impl<const V: usize, const I: usize> From<Fx<V, I>> for (Hx<V, I>,) { fn from(f: Fx<V, I>) -> Self { CALLS.with(|c| c.set(c.get() + 1)); (Hx(f.0 + 6),) } }
impl<const V: usize, const I: usize> From<Fx<V, I>> for Hx<V, I> { fn from(f: Fx<V, I>) -> Self { CALLS.with(|c| c.set(c.get() + 1)); Hx(f.0 + 2) } }
pub struct Wrap<T, S>(pub ::core::marker::PhantomData<(T, S)>);
pub trait HasConv { fn has(&self) -> bool { true } }
impl<T: ::core::convert::From<S>, S> HasConv for Wrap<T, S> {}
pub trait HasNoConv { fn has(&self) -> bool { false } }
impl<T, S> HasNoConv for &Wrap<T, S> {}
macro_rules! has_from { ($t:ty, $s:ty) => { (&Wrap::<$t, $s>(::core::marker::PhantomData)).has() } }
'''


def tup(xs):
    if len(xs) == 1:
        return xs[0]
    return "(" + ", ".join(xs) + ")"


class Shape:
    def __init__(self, owner, n, named, same, names=None):
        self.owner, self.n, self.named, self.same = owner, n, named, same
        self.idx = [0 if same else i for i in range(n)]
        self.names = names or (["g%d" % i for i in range(n)] if named else [str(i) for i in range(n)])

    def fty(self, i):
        return "Fx<%d, %d>" % (self.owner, self.idx[i])

    def gty(self, i):
        return "Gx<%d, %d>" % (self.owner, self.idx[i])

    def hty(self, i):
        return "Hx<%d, %d>" % (self.owner, self.idx[i])

    def fval(self, i, base=0):
        return "Fx::<%d, %d>(%d)" % (self.owner, self.idx[i], base + 10 * i + 1)

    def gval(self, i, base=0):
        return "Gx::<%d, %d>(%d)" % (self.owner, self.idx[i], base + 10 * i)

    def hval(self, i, base=0):
        return "Hx::<%d, %d>(%d)" % (self.owner, self.idx[i], base + 10 * i + 3)

    def body(self, fattrs=None, pub=True):
        fattrs = fattrs or {}
        p = "pub " if pub else ""
        if self.n == 0 and self.named is None:
            return ""
        fs = ["%s %s%s%s" % (fattrs.get(i, ""), p, (self.names[i] + ": ") if self.named else "", self.fty(i)) for i in range(self.n)]
        return "{ %s }" % ", ".join(fs) if self.named else "(%s)" % ", ".join(fs)

    def lit(self, path, vals):
        if self.n == 0 and self.named is None:
            return path
        if self.named:
            return "%s { %s }" % (path, ", ".join("%s: %s" % (a, v) for a, v in zip(self.names, vals)))
        return "%s(%s)" % (path, ", ".join(vals))


def struct_cases(thorough):
    cases = []
    shapes = [Shape(0, 0, None, False)]
    for n in range(0, 4 if thorough else 4):
        for named in (False, True):
            for same in ((False, True) if n > 1 else (False,)):
                shapes.append(Shape(0, n, named, same))
    shapes.append(Shape(0, 2, True, False, names=["r#type", "r#fn"]))
    # wide shapes (plain round trip only): two-digit positions, names whose declaration order is not their alphabetical order
    wide = [Shape(0, 12, False, False), Shape(0, 11, False, True), Shape(0, 12, True, False, names=["width", "height", "z9", "z10", "b", "a", "_2", "_10", "r#type", "r#as", "Z", "y"]),
            Shape(0, 3, True, True, names=["width", "height", "depth"])]
    for sh in wide:
        sh.wide = True
    shapes += wide
    for sh in shapes:
        n = sh.n
        F = [sh.fty(i) for i in range(n)]
        G = [sh.gty(i) for i in range(n)]
        H = [sh.hty(i) for i in range(n)]
        unit_t = "()"
        ft = tup(F) if n else unit_t
        fv = tup([sh.fval(i) for i in range(n)]) if n else "()"
        full = sh.lit("S", [sh.fval(i) for i in range(n)])
        semi = ";" if not sh.named else ""

        def mk(desc, sattrs, fattrs, derives, lines, impls=None):
            mod = """use super::*;
#[derive(Debug, PartialEq, Clone, %s)]
%s
pub struct S%s%s
pub fn run(r: &mut R) {
    let _ = calls();
    %s
}""" % (", ".join("derive_more::" + d for d in derives), "\n".join(sattrs), sh.body(fattrs), semi, "\n    ".join(lines))
            src = "#[derive(%s)] %s struct S%s" % (", ".join(derives), " ".join(sattrs), " ".join(sh.body(fattrs).split()))
            item = "%s pub struct S%s%s" % (" ".join(sattrs), sh.body(fattrs), semi)
            cases.append(Case("s%d" % len(cases), mod, meta={"desc": desc, "src": src, "item": item, "impls": impls or {}}))

        # Constructor + From plain + Into default (round trip)
        lines = ['r.eq("Constructor::new puts the i-th argument into the i-th field", S::new(%s), %s);' % (", ".join(sh.fval(i) for i in range(n)), full),
                 'r.eq("From<(..)> puts the i-th component into the i-th field", S::from(%s), %s);' % (fv, full),
                 'r.eq("Into extracts the fields in declaration order", <%s>::from(%s), %s);' % (ft, full, fv),
                 'r.eq("from(into(x)) == x", S::from(<%s>::from(%s)), %s);' % (ft, full, full),
                 'r.eq("no From::from call is needed for the plain forms", calls(), 0);']
        mk("plain", [], {}, ["Constructor", "From", "Into"], lines, impls={"From": 1, "Into": 1, "Constructor": 1})
        if n == 0 or getattr(sh, "wide", False):
            continue
        # From forward / types; Into types
        gv = tup([sh.gval(i) for i in range(n)])
        conv = sh.lit("S", ["Fx::<%d, %d>(%d)" % (sh.owner, sh.idx[i], 10 * i + 1) for i in range(n)])
        lines = ['r.eq("From forward converts each component into its field", S::from(%s), %s);' % (gv, conv),
                 'r.eq("forward applies exactly one From::from per field", calls(), %d);' % n,
                 'r.eq("forward also covers the field types themselves", S::from(%s), %s);' % (fv, full)]
        mk("from_forward", ["#[from(forward)]"], {}, ["From"], lines, impls={"From": 1})
        gt, hT = tup(G), tup(H)
        for style in ("one_attr", "two_attrs"):
            sat = ["#[from(%s, %s)]" % (gt, ft)] if style == "one_attr" else ["#[from(%s)]" % gt, "#[from(%s)]" % ft]
            iat = ["#[into(%s, %s)]" % (hT, ft)] if style == "one_attr" else ["#[into(%s)]" % hT, "#[into(%s)]" % ft]
            hv = tup(["Hx::<%d, %d>(%d)" % (sh.owner, sh.idx[i], 10 * i + 3) for i in range(n)])
            lines = ['r.eq("From<listed type>", S::from(%s), %s);' % (gv, conv),
                     'r.eq("exactly one From::from per field", calls(), %d);' % n,
                     'r.eq("From<own field types> when listed", S::from(%s), %s);' % (fv, full),
                     'r.eq("Into<listed type>", <%s>::from(%s), %s);' % (hT, full, hv),
                     'r.eq("exactly one From::from per field (into)", calls(), %d);' % n,
                     'r.eq("Into<own field types> when listed", <%s>::from(%s), %s);' % (ft, full, fv)]
            mk("types_" + style, sat + iat, {}, ["From", "Into"], lines, impls={"From": 2, "Into": 2})
        if n == 1:
            # a one-element tuple listed for the single field is the type `(G,)`, not a list of per-field types
            lines = ['r.eq("From<(G,)> goes through the field type\'s own From<(G,)>", S::from((%s,)), %s);' % (sh.gval(0), sh.lit("S", ["Fx::<%d, %d>(%d)" % (sh.owner, sh.idx[0], 5)])),
                     'r.check("no From<G> was asked for", !has_from!(S, %s));' % G[0],
                     'r.eq("Into<(H,)> goes through From<field> for (H,)", <(%s,)>::from(%s), (Hx::<%d, %d>(%d),));' % (H[0], full, sh.owner, sh.idx[0], 1 + 6),
                     'r.check("no Into<H> was asked for", !has_from!(%s, S));' % H[0]]
            mk("one_element_tuple_types", ["#[from((%s,))]" % G[0], "#[into((%s,))]" % H[0]], {}, ["From", "Into"], lines, impls={"From": 1, "Into": 1})
        # only listed types get an impl
        lines = ['r.eq("From<listed type>", S::from(%s), %s);' % (gv, conv),
                 'r.check("no From<field types> unless listed", !has_from!(S, %s));' % ft,
                 'r.check("no Into<field types> unless listed", !has_from!(%s, S));' % ft,
                 'r.check("Into<listed> exists", has_from!(%s, S));' % hT]
        mk("types_only_listed", ["#[from(%s)]" % gt, "#[into(%s)]" % hT], {}, ["From", "Into"], lines, impls={"From": 1, "Into": 1})
        # Into reference kinds
        rt, mt = tup(["&" + f for f in F]), tup(["&mut " + f for f in F])
        binds = ["p%d" % i for i in range(n)]
        for sattr, kinds in (("#[into(owned, ref, ref_mut)]", "orm"), ("#[into(ref)]", "r"), ("#[into(ref_mut, owned)]", "om"),
                             ("#[into(ref(%s), owned(%s))]" % (ft, hT), "rH"),
                             # one kind given both bare (the fields' own types) and with a type list, in either order
                             ("#[into(owned(%s), owned)]" % hT, "oH"), ("#[into(owned, owned(%s))]" % hT, "oH"), ("#[into(ref, owned(%s), owned)]" % hT, "roH"),
                             # the same selections spread over repeated attributes
                             ("#[into(owned)] #[into(ref)]", "or"), ("#[into(owned)] #[into(ref_mut)]", "om"), ("#[into(ref)] #[into(ref_mut)]", "rm"),
                             ("#[into(ref_mut)] #[into(ref)]", "rm"), ("#[into(ref)] #[into(owned)]", "or"), ("#[into(owned)] #[into(ref)] #[into(ref_mut)]", "orm")):
            lines = ["let mut s = %s;" % full]
            if "r" in kinds:
                lines += ['{ let %s = <%s>::from(&s); r.eq("Into<(&..)> yields the fields themselves, in order", vec![%s], vec![%s]); }' % (
                    tup(binds), rt, ", ".join("adr(%s)" % b for b in binds), ", ".join("adr(&s.%s)" % a for a in sh.names))]
            if "m" in kinds:
                lines += ['{ let want = vec![%s]; let %s = <%s>::from(&mut s); r.eq("Into<(&mut ..)> yields the fields themselves, in order", vec![%s], want); }' % (
                    ", ".join("adr(&s.%s)" % a for a in sh.names), tup(binds), mt, ", ".join("adr(&*%s)" % b for b in binds))]
            if "o" in kinds:
                lines += ['r.eq("owned Into", <%s>::from(s.clone()), %s);' % (ft, fv)]
            else:
                lines += ['r.check("no owned conversion unless selected", !has_from!(%s, S));' % ft]
            if "H" in kinds:
                lines += ['r.eq("owned(listed)", <%s>::from(s.clone()), %s);' % (hT, tup(["Hx::<%d, %d>(%d)" % (sh.owner, sh.idx[i], 10 * i + 3) for i in range(n)]))]
            if "r" not in kinds:
                lines += ['r.check("no shared-reference conversion unless selected", !has_from!(%s, &S));' % rt]
            if "m" not in kinds:
                lines += ['r.check("no mutable-reference conversion unless selected", !has_from!(%s, &mut S));' % mt]
            mk("into_refs " + sattr, [sattr], {}, ["Into"], lines, impls={"Into": len(kinds)})
        # Into skip: every non-empty proper subset of skipped fields
        if n >= 2:
            for k in range(1, n):
                for skipped in itertools.combinations(range(n), k):
                    kept = [i for i in range(n) if i not in skipped]
                    fat = {i: ("#[into(skip)]" if i % 2 == 0 else "#[into(ignore)]") for i in skipped}
                    kt = tup([F[i] for i in kept])
                    krt = tup(["&" + F[i] for i in kept])
                    kb = ["p%d" % i for i in kept]
                    lines = ["let s = %s;" % full,
                             'r.eq("Into yields the non-skipped fields in declaration order", <%s>::from(s.clone()), %s);' % (kt, tup([sh.fval(i) for i in kept])),
                             '{ let %s = <%s>::from(&s); r.eq("ref Into yields the very non-skipped fields", vec![%s], vec![%s]); }' % (
                                 tup(kb), krt, ", ".join("adr(%s)" % b for b in kb), ", ".join("adr(&s.%s)" % sh.names[i] for i in kept))]
                    if not sh.same or len(kept) != n:
                        lines.append('r.check("no conversion into the full tuple when fields are skipped", !has_from!(%s, S));' % ft)
                    mk("into_skip", ["#[into(owned, ref)]"], fat, ["Into"], lines, impls={"Into": 2})
        # field-level #[into]
        if n >= 2:
            for i in range(n):
                for with_struct in (False, True):
                    fat = {i: "#[into]"}
                    sat = ["#[into]"] if with_struct else []
                    lines = ["let s = %s;" % full, 'r.eq("field-level Into yields that field", <%s>::from(s.clone()), %s);' % (F[i], sh.fval(i))]
                    if with_struct:
                        lines.append('r.eq("struct-level attribute keeps the tuple conversion", <%s>::from(s.clone()), %s);' % (ft, fv))
                    else:
                        lines.append('r.check("no tuple conversion when only a field carries #[into]", !has_from!(%s, S));' % ft)
                    if not sh.same:
                        mk("into_field", sat, fat, ["Into"], lines, impls={"Into": 2 if with_struct else 1})
                # a field with conversions of its own that is also skipped for the tuple conversions (documented combination)
                if not sh.same:
                    for with_struct in (False, True):
                        kept = [j for j in range(n) if j != i]
                        fat = {i: "#[into(ref)] #[into(skip)]"}
                        sat = ["#[into]"] if with_struct else []
                        lines = ["let s = %s;" % full, 'r.eq("field-level ref yields the skipped field itself", adr(<&%s>::from(&s)), adr(&s.%s));' % (F[i], sh.names[i])]
                        kt = tup([F[j] for j in kept])
                        if with_struct:
                            lines.append('r.eq("struct-level attribute: tuple of the non-skipped fields", <%s>::from(s.clone()), %s);' % (kt, tup([sh.fval(j) for j in kept])))
                            nimpl = 2
                        else:
                            lines.append('r.check("no tuple conversion when only a (skipped) field carries #[into]", !has_from!(%s, S));' % kt)
                            nimpl = 1
                        lines.append('r.check("no conversion into the full tuple", !has_from!(%s, S));' % ft)
                        mk("into_field_skip", sat, fat, ["Into"], lines, impls={"Into": nimpl})
                fat = {i: "#[into(owned(%s), ref)]" % H[i]}
                lines = ["let s = %s;" % full,
                         'r.eq("field-level owned(listed)", <%s>::from(s.clone()), Hx::<%d, %d>(%d));' % (H[i], sh.owner, sh.idx[i], 10 * i + 3),
                         'r.eq("exactly one From::from", calls(), 1);',
                         'r.eq("field-level ref yields the field itself", adr(<&%s>::from(&s)), adr(&s.%s));' % (F[i], sh.names[i])]
                if not sh.same:
                    mk("into_field_types", [], fat, ["Into"], lines, impls={"Into": 2})
    return cases


VK = {"unit": (None, 0), "t1": (False, 1), "t2": (False, 2), "n1": (True, 1), "n2": (True, 2), "t0": (False, 0), "n0": (True, 0)}
VATTR = ["none", "from", "skip", "ignore", "forward", "types"]


def enum_cases(thorough):
    cases = []
    kinds_alpha = ["unit", "t1", "t2", "n1", "n2"] + (["t0"] if thorough else [])
    maxv = 2
    combos = []
    for nv in range(1, maxv + 1):
        for kinds in itertools.product(kinds_alpha, repeat=nv):
            for attrs in itertools.product(VATTR, repeat=nv):
                combos.append((kinds, attrs))
    if thorough:
        for kinds in itertools.product(["unit", "t1", "n2"], repeat=3):
            for attrs in itertools.product(["none", "from", "skip", "forward", "types"], repeat=3):
                combos.append((kinds, attrs))
    else:
        for kinds, attrs in ((("t1", "t2", "unit"), ("from", "none", "none")), (("t1", "n2", "t1"), ("none", "skip", "types")),
                             (("n1", "unit", "t2"), ("forward", "none", "ignore")), (("t2", "t2", "t2"), ("none", "none", "none"))):
            combos.append((kinds, attrs))
    for kinds, attrs in combos:
        # unit-like variants: only `none`/skip/ignore are meaningful without conflicting `From<()>` impls
        if sum(1 for k, a in zip(kinds, attrs) if VK[k][1] == 0 and a in ("from", "types", "forward")) > 1:
            continue
        if any(VK[k][1] == 0 and a in ("types", "forward") for k, a in zip(kinds, attrs)):
            continue
        fw = [VK[k][1] for k, a in zip(kinds, attrs) if a == "forward"]
        if len(fw) != len(set(fw)):
            continue  # two blanket impls of the same arity overlap (user error, rejected by coherence)
        explicit = any(a in ("from", "forward", "types") for a in attrs)
        variants, lines = [], []
        nimpl = 0
        for vi, (k, a) in enumerate(zip(kinds, attrs)):
            named, n = VK[k]
            sh = Shape(vi + 1, n, named, False)
            F = [sh.fty(i) for i in range(n)]
            ft = tup(F) if n else "()"
            gt = tup([sh.gty(i) for i in range(n)])
            at = {"none": "", "from": "#[from]", "skip": "#[from(skip)]", "ignore": "#[from(ignore)]", "forward": "#[from(forward)]",
                  "types": "#[from(%s)]" % gt}[a]
            body = sh.body(pub=False) if k != "unit" else ""
            variants.append("%s V%d%s" % (at, vi, body))
            full = sh.lit("E::V%d" % vi, [sh.fval(i) for i in range(n)])
            fv = tup([sh.fval(i) for i in range(n)]) if n else "()"
            gv = tup([sh.gval(i) for i in range(n)])
            conv = sh.lit("E::V%d" % vi, ["Fx::<%d, %d>(%d)" % (sh.owner, sh.idx[i], 10 * i + 1) for i in range(n)])
            plain_impl = (a == "from") or (a == "none" and not explicit and n > 0 and k != "unit")
            if k in ("t0", "n0") and a == "none" and not explicit:
                plain_impl = False  # empty variants are treated like unit variants (no fields)
            if plain_impl or a in ("forward", "types") or (VK[k][1] == 0 and a == "from"):
                nimpl += 1
            if plain_impl:
                lines.append('r.eq("V%d: From<fields> fills the fields in order", E::from(%s), %s);' % (vi, fv, full))
            elif a in ("forward",):
                lines.append('r.eq("V%d: forward", E::from(%s), %s);' % (vi, gv, conv))
                lines.append('r.eq("V%d: exactly one From::from per field", calls(), %d);' % (vi, n))
            elif a == "types":
                lines.append('r.eq("V%d: From<listed>", E::from(%s), %s);' % (vi, gv, conv))
                lines.append('r.eq("V%d: exactly one From::from per field", calls(), %d);' % (vi, n))
                lines.append('r.check("V%d: no From<field types> unless listed", !has_from!(E, %s));' % (vi, ft))
            else:
                if n > 0:
                    lines.append('r.check("V%d: no From impl (skipped, or un-annotated while another variant is annotated)", !has_from!(E, %s));' % (vi, ft))
        if not any(VK[k][1] == 0 and a == "from" for k, a in zip(kinds, attrs)):
            lines.append('r.check("no From<()> for unit variants", !has_from!(E, ()));')
        mod = """use super::*;
#[derive(Debug, PartialEq, Clone, derive_more::From)]
pub enum E { %s }
pub fn run(r: &mut R) {
    let _ = calls();
    %s
}""" % (", ".join(variants), "\n    ".join(lines))
        src = "#[derive(From)] enum E { %s }" % ", ".join(" ".join(v.split()) for v in variants)
        cases.append(Case("e%d" % len(cases), mod, meta={"desc": "enum " + ",".join(attrs), "src": src, "item": "pub enum E { %s }" % ", ".join(variants), "impls": {"From": nimpl}}))
    return cases


def run(chk, tier):
    thorough = tier == "thorough"
    sc = struct_cases(thorough)
    ec = enum_cases(thorough)
    cases = sc + ec
    chk.part("structs", programs=len(sc), shapes="unit, tuple/named x 0..3 fields, pairwise distinct and all-equal field types, raw-identifier field names",
             configs=["Constructor+From+Into plain (round trip)", "from(forward)", "from/into type lists (one attribute vs several)", "only listed types",
                      "into owned/ref/ref_mut selections", "into skip on every proper field subset", "field-level into (with/without struct-level, with types)"])
    chk.part("enums", programs=len(ec), variant_kinds=["unit", "t1", "t2", "n1", "n2"], attrs=VATTR, max_variants=2,
             note="full product of kinds x attribute placements for <=2 variants (+ 3-variant products over a reduced alphabet in thorough)")
    # ---------------- seam A: the number of impl items each derive generates is exactly the documented one
    from common import svc
    reqs, owner = [], []
    for c in cases:
        for d, want in sorted(c.meta["impls"].items()):
            reqs.append({"derive": d, "item": c.meta["item"], "canon": True})
            owner.append((c, d, want))
    for (c, d, want), r in zip(owner, svc(reqs)):
        chk.count(states=1, transitions=1)
        if r["k"] != "ok":
            chk.outcome("A-" + r["k"])
            chk.violation("in-process: derive(%s) %s on a supported input (%s)" % (d, r["k"], c.meta["desc"].split(" ")[0]), c.meta["src"], r.get("msg", "")[:300])
            continue
        got = sum(1 for it in r["canon"] if re.search(r"(^|\] )impl\b", it.split("{")[0]))
        if got == want:
            chk.outcome("A-impl-count-agrees")
        else:
            chk.outcome("A-impl-count-differs")
            chk.violation("in-process: derive(%s) generates %s impls than documented (%s)" % (d, "more" if got > want else "fewer", c.meta["desc"].split(" ")[0]),
                          c.meta["src"], "documented: %d impl item(s), expansion has %d" % (want, got))
    chk.part("A_impl_counts", expansions=len(reqs), oracle="number of impl items in the real expansion == number of documented conversions for that attribute configuration")
    eng = CompileEngine("C08", prelude=PRELUDE, per_bin=max(8, len(cases) // 16 + 1))
    results = eng.run_cases(cases)
    pass
    for c in cases:
        res = results[c.cid]
        chk.count(states=1, transitions=max(res.ncmp, 1))
        if res.compile == "ok" and res.run == "ok":
            chk.outcome("ok/" + c.meta["desc"].split(" ")[0])
            chk.sample({"type": c.meta["src"], "observations": res.ncmp})
            continue
        chk.outcome("%s/%s" % (res.compile, res.run))
        if res.compile != "ok":
            msgs = sorted({re.sub(r"[se]\d+::", "", d["message"]) for d in res.diags})
            chk.violation("compile-error %s: %s" % (c.meta["desc"].split(" ")[0], msgs[0][:90]), c.meta["src"], "; ".join(msgs[:4]))
        else:
            first = res.detail.split("::", 1)[-1].strip().split(":")[0]
            chk.violation("wrong-result %s: %s" % (c.meta["desc"].split(" ")[0], re.sub(r"V\d", "V", first)[:70]), c.meta["src"], res.detail)
    chk.part("engine", bins_built=eng.bins_built, rounds=eng.rounds, build_s=round(eng.build_s, 1))
    chk.assumptions += ["impl absence is decided by autoref-based trait-resolution probes (`has_from!`), presence by calling the impl"]
