"""C18 - derive expansion is total: a result or a diagnostic, never an internal failure (DESIGN.md §3 C18)."""
import json
import re
import subprocess

from common import MachineryError, base_env, inproc_bin, svc

WATCHDOG_US = 2_000_000


def sweep(chk, space, args, label, timeout=1500):
    """Runs one index-addressable explorer; an abort or hang is bisected down to one index."""
    exe = inproc_bin()

    def call(extra, to):
        try:
            p = subprocess.run([exe, "c18", space] + args + extra, stdout=subprocess.PIPE, stderr=subprocess.PIPE, text=True,
                               timeout=to, env=base_env())
        except subprocess.TimeoutExpired:
            return None, "timeout"
        if p.returncode != 0:
            return None, "abort rc=%s %s" % (p.returncode, p.stderr[-200:])
        return json.loads(p.stdout.strip().splitlines()[-1]), None

    d, why = call([], timeout)
    if d is None:
        # find the space size, then bisect
        lo, hi = 0, None
        probe, _ = call(["--lo", "0", "--hi", "1"], 60)
        if probe is None:
            raise MachineryError("explorer %s fails even on one element: %s" % (space, why))
        hi = probe["total"]
        while hi - lo > 1:
            mid = (lo + hi) // 2
            d1, w1 = call(["--lo", str(lo), "--hi", str(mid)], timeout)
            if d1 is None:
                hi = mid
            else:
                lo = mid
        w = subprocess.run([exe, "c18", "witness", space] + args + ["--idx", str(lo)], stdout=subprocess.PIPE, text=True, env=base_env()).stdout.strip()
        chk.violation("%s: %s" % (label, why.split(" ")[0]), w, "the engine process died or hung on this input: %s" % why)
        chk.caps.append("%s: exploration stopped at the first abort/hang (index %d)" % (label, lo))
        return None
    t = d["tally"]
    n = d["hi"] - d["lo"]
    chk.count(states=n, transitions=d.get("calls", n))
    for k, v in t["kinds"].items():
        chk.outcome("%s/%s" % (label, k), v)
    for it in t["internal"]:
        chk.violation("internal failure: " + shorten(it["signature"]), it["witness"], it["detail"], known_id=None)
    if t["max_us"] > WATCHDOG_US:
        chk.violation("%s: a call exceeded the %d ms watchdog" % (label, WATCHDOG_US // 1000), label, "max_us=%d" % t["max_us"])
    chk.part(label, inputs=n, alphabet_size=len(d["alphabet"]), max_len=d["maxlen"], outcome_kinds=t["kinds"], slowest_call_us=t["max_us"],
             **({"positions": d["positions"]} if "positions" in d else {}), **({"templates": d["templates"]} if "templates" in d else {}))
    return d


def shorten(sig):
    import re
    return re.sub(r"/root/\.cargo/registry/src/[^/]+/", "", sig)[:160]


# ------------------------------------------------------------------------------------------------
# (a) every derive x every item shape

def item_shapes():
    shapes = ["struct S;", "struct S();", "struct S {}", "struct S(u8);", "struct S(u8, u16);", "struct S(u8, u16, u32);",
              "struct S { a: u8 }", "struct S { a: u8, b: u16 }", "struct S { a: u8, b: u16, c: u32 }",
              "struct S<T>(T);", "struct S<'a, T: Clone, const N: usize>(&'a [T; N]) where T: 'a;", "struct S<T> { a: T, b: Vec<T> }",
              "struct r#type(u8);", "struct S { r#fn: u8 }",
              "enum E {}", "enum E { A }", "enum E { A, B }", "enum E { A = 1, B = 5 }", "enum E { A(u8) }", "enum E { A(u8), B(u16) }",
              "enum E { A { x: u8 } }", "enum E { A, B(u8), C { x: u8, y: u16 } }", "enum E { A(), B {} }", "enum E<T> { A(T), B }",
              "enum E<'a, const N: usize> { A(&'a [u8; N]) }", "enum E { r#type, r#Self_(u8) }", "enum E { A(u8, u8), B(u8, u8) }",
              "union U { a: u8, b: u16 }", "union U<T: Copy> { a: T }",
              "struct S(fn(u8) -> u8, *const u8, [u8; 4], (u8, u8), &'static str, dyn_ty::X<u8>, <u8 as Tr>::A, !, impl_ty::Y);",
              "struct S(Box<dyn Fn(u8) -> u8 + Send + 'static>, &'static (dyn core::any::Any + Send));",
              "struct S<T: ?Sized>(T);", "#[repr(u8)] enum E { A = 1 << 2, B }", "#[repr(C, align(8))] enum E { A, B }",
              # the same exotic field types inside GENERIC items (the type walks of the derives return early when there is no type parameter)
              "struct S<T>(T, fn(u8) -> u8, *const u8, [u8; 4], (u8, u8), &'static str, Box<dyn Fn(u8) -> u8 + Send + 'static>, &'static (dyn core::any::Any + Send + 'static));",
              "struct S<'a, T: ?Sized>(&'a (dyn core::fmt::Debug + 'a), Box<dyn core::any::Any + 'static>, Box<dyn 'static + Send>, &'a T);",
              "enum E<T> { A(T, Box<dyn core::any::Any + Send + 'static>), B { x: &'static (dyn core::fmt::Debug + Sync), y: fn(T) -> T }, C(dyn_ty::X<T>, <u8 as Tr>::A, [T; 2], (T, u8), !) }",
              "struct S<T> { a: Option<&'static T>, b: ::core::marker::PhantomData<T>, c: impl_ty::Y, d: Box<dyn Iterator<Item = T> + 'static>, e: (T), f: &'static [T] }",
              # unsized last fields: trait objects with several bounds need parentheses once a `&` is put in front of them
              "struct S(dyn Tr + Send);", "struct S { a: u8, b: dyn core::fmt::Debug + Send + 'static }", "struct S<'a, T: ?Sized>(&'a u8, T);", "struct S(u8, [u8]);", "struct S(str);",
              "struct S<'a>(&'a u8, dyn Tr + 'a);", "enum E<'a> { A(&'a (dyn Tr + Send)), B(&'a mut (dyn Tr + 'a)) }",
              "pub(crate) struct S(pub u8, pub(crate) u16);", "#[doc = \"x\"] #[allow(dead_code)] #[cfg_attr(all(), derive(Clone))] struct S(#[doc = \"y\"] u8);"]
    return shapes


def part_a(chk, derives):
    reqs = []
    for d in derives:
        for s in item_shapes():
            reqs.append({"derive": d["name"], "item": s})
            for a in d["attrs"]:
                # the bare attribute and a plausible argument in item position
                reqs.append({"derive": d["name"], "item": "#[%s] %s" % (a, s)})
                reqs.append({"derive": d["name"], "item": "#[%s(forward)] %s" % (a, s)})
                reqs.append({"derive": d["name"], "item": "#[%s(\"{}\")] %s" % (a, s)})
        # reference kinds next to an unsized trait-object field with several bounds (a `&` in front of it needs parentheses)
        for a in d["attrs"]:
            for item in ("#[%s(ref)] struct S(u8, dyn Tr + Send);", "#[%s(ref, ref_mut)] struct S(dyn Tr + Send + 'static);", "struct S(#[%s(ref, ref_mut)] dyn Tr + Send);",
                         "struct S { a: u8, #[%s(owned, ref)] b: dyn Tr + Send }", "#[%s(ref_mut)] struct S<'a>(&'a u8, dyn Tr + 'a);"):
                reqs.append({"derive": d["name"], "item": item % a})
        # parameter names decorated the way paths can be: generic arguments, leading `::`, further segments
        for a in d["attrs"]:
            for s in ("struct S(u8);", "struct S { a: u8, b: u16 }", "enum E { A(u8), B }"):
                for arg in ("forward<>", "forward::<u8>", "ignore<u8>", "owned::<u8>", "ref<'a>", "not(forward<u8>)", "not(source<>)", "::ignore", "ignore::x", "skip<>", "repr<u8>", "bound<T>(T: Clone)",
                            "owned<>(u8)", "types<>(u8)", "rename_all<> = \"x\"", "source<>", "backtrace::<>"):
                    reqs.append({"derive": d["name"], "item": "#[%s(%s)] %s" % (a, arg, s)})
                    if "(" in s:
                        reqs.append({"derive": d["name"], "item": s.replace("(u8", "(#[%s(%s)] u8" % (a, arg), 1)})
    # the same items as a `macro_rules!` expansion hands them over: every field type inside a None-delimited group
    reqs += [dict(q, group=True) for q in reqs if "(" in q["item"] or "{" in q["item"]]
    # (not for the grouped variants: printing tokens as text drops None-delimited groups, which rustc itself keeps together)
    reqs = [q if q.get("group") else dict(q, parse=True) for q in reqs]
    res = svc(reqs, timeout=120)
    evaluate(chk, "a_items", reqs, res)
    chk.part("a_items", inputs=len(reqs), derives=len(derives), shapes=len(item_shapes()), note="every input also with its field types wrapped in None-delimited groups (syn::Type::Group)")


GROWTH_WATCHDOG_US = 60_000_000


def evaluate(chk, label, reqs, res, watchdog=WATCHDOG_US):
    for q, r in zip(reqs, res):
        chk.count(states=1, transitions=1)
        k = r["k"]
        if k == "panic":
            k = "panic-" + r["class"]
        chk.outcome("%s/%s" % (label, k))
        w = "derive(%s) on: %s" % (q["derive"], q["item"] if len(q["item"]) < 300 else q["item"][:300] + "...")
        if k == "panic-internal":
            import re
            loc = re.sub(r":\d+$", "", r["loc"])
            chk.violation("internal failure: " + shorten("%s @ %s" % (re.sub(r"\d", "N", re.sub(r"[\"`].*?[\"`]", '""', r["msg"]))[:100], loc)), w, "%s @ %s" % (r["msg"], r["loc"]))
        elif k in ("abort", "timeout"):
            chk.violation("%s: %s" % (label, k), w, r.get("msg", ""))
        elif k == "badreq":
            raise MachineryError("bad request: %s" % r)
        elif r.get("us", 0) > watchdog:
            chk.violation("%s: call exceeded watchdog" % label, w, "us=%d" % r["us"])
        elif k == "ok" and q.get("parse") and r.get("parses") is False:
            # the item is valid Rust (these generators write nothing else), so tokens that are not Rust items are the derive's doing;
            # rustc reports them as "proc-macro derive produced unparsable tokens" - an internal failure as far as the user can tell
            chk.outcome("%s/ok-but-not-rust" % label)
            chk.violation("internal failure: the expansion is not parsable as Rust items (derive(%s))" % q["derive"], w, r.get("out", "")[:700])
        elif k == "parsefail" and len(q["item"]) < 300:
            raise MachineryError("generated item does not parse: %s (%s)" % (q["item"], r["msg"]))


# ------------------------------------------------------------------------------------------------
# (d) growth series

def part_d(chk, thorough):
    reqs = []
    sizes = [1 << k for k in range(0, 10 if thorough else 9)]
    for n in sizes:
        many_fields = ", ".join("f%d: u8" % i for i in range(n))
        many_tuple = ", ".join("u8" for _ in range(n))
        many_variants = ", ".join("V%d" % i for i in range(n))
        many_tvariants = ", ".join("V%d(u%d)" % (i, 8 << (i % 4)) for i in range(n))
        lit_many = "{} " * n
        args_many = ", ".join("_0" for _ in range(n))
        named_many = "".join("{f%d}" % i for i in range(n))
        bounds_many = ", ".join("T: Tr%d" % i for i in range(n))
        types_many = ", ".join("Ty%d" % i for i in range(n))
        digits = "9" * n
        reqs += [
            {"derive": "Constructor", "item": "struct S { %s }" % many_fields},
            {"derive": "Add", "item": "struct S(%s);" % many_tuple},
            {"derive": "Mul", "item": "struct S(%s);" % many_tuple},
            {"derive": "Not", "item": "enum E { %s }" % many_tvariants},
            {"derive": "From", "item": "struct S(%s);" % many_tuple},
            {"derive": "From", "item": "#[from(%s)] struct S(u8);" % types_many},
            {"derive": "Into", "item": "#[into(owned(%s), ref(%s))] struct S(u8);" % (types_many, types_many)},
            {"derive": "AsRef", "item": "#[as_ref(%s)] struct S(u8);" % types_many},
            {"derive": "FromStr", "item": "enum E { %s }" % many_variants},
            {"derive": "IsVariant", "item": "enum E { %s }" % many_tvariants},
            {"derive": "TryInto", "item": "#[try_into(owned, ref, ref_mut)] enum E { %s }" % many_tvariants},
            {"derive": "TryUnwrap", "item": "#[try_unwrap(ref, ref_mut)] enum E { %s }" % many_tvariants},
            {"derive": "TryFrom", "item": "#[try_from(repr)] enum E { %s }" % many_variants},
            {"derive": "Error", "item": "enum E { %s }" % many_tvariants},
            {"derive": "Debug", "item": "struct S { %s }" % many_fields},
            {"derive": "Display", "item": "#[display(\"%s\", %s)] struct S(u8);" % (lit_many, args_many)},
            {"derive": "Display", "item": "#[display(\"%s\")] struct S { %s }" % (named_many, many_fields)},
            {"derive": "Display", "item": "#[display(\"x\")] #[display(bound(%s))] struct S<T>(T);" % bounds_many},
            {"derive": "Display", "item": "#[display(\"{:%s}\", _0)] struct S(u8);" % digits},
            {"derive": "Display", "item": "#[display(\"{%s}\", _0)] struct S(u8);" % digits},
            {"derive": "Display", "item": "#[display(\"{:.%s$}\", _0)] struct S(u8);" % digits},
            {"derive": "Display", "item": "#[display(\"%s\")] struct S;" % ("{{" * n)},
            {"derive": "Display", "item": "#[display(\"%s\")] struct S;" % ("{" * n)},
            {"derive": "Display", "item": "#[display(\"%s\")] struct S;" % ("}" * n)},
            {"derive": "Display", "item": "#[display(\"{:%s\")] struct S;" % ("é" * n)},
            {"derive": "Debug", "item": "#[debug(\"{}\", %s)] struct S(u8);" % ("(" * min(n, 64) + "_0" + ")" * min(n, 64))},
            {"derive": "Display", "item": "#[display(\"{}\", %s)] struct S(u8);" % ("a::<" * min(n, 64) + "u8" + ">" * min(n, 64) + "()")},
            {"derive": "Display", "item": "#[display(\"{}\", %s)] struct S(u8);" % ("|" * n)},
            {"derive": "Display", "item": "#[display(\"{}\", %s)] struct S(u8);" % ("<" * n)},
            {"derive": "Display", "item": "#[display(\"{}\", %s)] struct S(u8);" % (":: <" * n)},
            {"derive": "Display", "item": "struct S<T>(%s);" % ("Vec<" * min(n, 64) + "T" + ">" * min(n, 64))},
            {"derive": "Debug", "item": "struct S<T>(%s);" % ("(" * min(n, 64) + "T" + ",)" * min(n, 64))},
            {"derive": "AsRef", "item": "#[as_ref(%s)] struct S<T>(T);" % ("Vec<" * min(n, 64) + "T" + ">" * min(n, 64))},
        ]
    res = svc(reqs, chunk=2000, timeout=600)
    evaluate(chk, "d_growth", reqs, res, watchdog=GROWTH_WATCHDOG_US)
    # growth exponent over the last three doublings, per series (position in the per-size block)
    per = len(reqs) // len(sizes)
    worst = []
    for j in range(per):
        ts = [res[i * per + j].get("us", 0) for i in range(len(sizes))]
        a, b = max(ts[-4], 200), ts[-1]
        import math
        p = math.log(b / a) / math.log(8.0) if b > a else 0.0
        worst.append((round(p, 2), reqs[(len(sizes) - 1) * per + j]["derive"], b))
        if p > 2.7 and b > 1_000_000:
            chk.violation("d_growth: super-quadratic growth", "derive(%s) series #%d" % (reqs[j]["derive"], j), "times(us) over sizes %s: %s" % (sizes, ts))
    worst.sort(reverse=True)
    chk.part("d_growth_exponents", steepest=[{"exponent": p, "derive": d, "us_at_max": u} for p, d, u in worst[:5]],
             rule="violation iff exponent over the last three doublings > 2.7 with > 1 s at the largest size, or any call > 60 s")
    slow = sorted(((r.get("us", 0), q["derive"], len(q["item"])) for q, r in zip(reqs, res)), reverse=True)[:5]
    chk.part("d_growth", inputs=len(reqs), sizes=sizes, nesting_cap=64, slowest=[{"us": a, "derive": b, "item_len": c} for a, b, c in slow])


def part_e(chk):
    """Placeholders / arguments naming positional fields at and beyond the end of the field list, in every fmt position."""
    reqs = []
    fmt = [("Display", "display"), ("LowerHex", "lower_hex"), ("Pointer", "pointer"), ("Debug", "debug")]
    for derive, a in fmt:
        for n in range(0, 4):
            tys = ", ".join("u8" for _ in range(n))
            for i in range(0, n + 3):
                for lit, args in (("{_%d}" % i, ""), ("{_%d:?} x" % i, ""), ("{0}", ", _%d" % i), ("{x} {}", ", _0, x = _%d" % i), ("{:.*}", ", _%d, _0" % i),
                                  ("{_%d}{_%d}" % (i, max(i - 1, 0)), ""), ("{:_%d$}" % i, ", 1"), ("{:.1$}", ", 1, _%d" % i)):
                    at = '#[%s("%s"%s)]' % (a, lit, args)
                    reqs.append({"derive": derive, "item": "%s struct S<T>(%s);" % (at, ", ".join(["T"] * n))})
                    reqs.append({"derive": derive, "item": "enum E<T> { %s A(%s), #[%s(\"b\")] B }" % (at, ", ".join(["T"] * n), a)})
                    if derive != "Debug":
                        reqs.append({"derive": derive, "item": "%s enum E<T> { A(%s), #[%s(\"b\")] B }" % (at, ", ".join(["T"] * n), a)})
                        reqs.append({"derive": derive, "item": '#[%s("{_variant} %s"%s)] enum E<T> { #[%s("a")] A(%s), #[%s("b")] B }' % (a, lit, args, a, ", ".join(["T"] * n), a)})
                    else:
                        reqs.append({"derive": derive, "item": "struct S<T>(%s #[debug(\"%s\"%s)] T);" % ("".join("T, " for _ in range(max(n - 1, 0))), lit, args)})
    res = svc(reqs, timeout=120)
    evaluate(chk, "e_field_index_boundaries", reqs, res)
    chk.part("e_field_index_boundaries", inputs=len(reqs), note="`_i` for i = 0 .. fields+2 as named placeholder, positional argument, alias, width/precision parameter, in struct / variant / shared-enum / Debug-field positions")


def part_f(chk, thorough):
    """The derive inputs of the other properties' program spaces: C01's supported shapes, C17's documented spellings and
    single-step corruptions, every C09 field layout with up to three fields (struct and enum variant): whatever they
    expand to, it must not be an internal failure."""
    import c01
    import c09
    import c17
    reqs = list(c01.build(thorough)[4])
    for d, desc, forms in c17.all_spellings():
        reqs += [{"derive": d, "item": f} for f in forms]
    reqs += [{"derive": d, "item": item} for d, cls, item, rustc in (c17.corruptions() + c17.shifted_corruptions())]
    for named, fields in c09.layouts(3):
        for container in ("struct", "enum"):
            reqs.append({"derive": "Error", "item": c09.item_text(named, fields, container, lambda f, i: ("my::Backtrace" if f["ty"] == "bt" else "E%d" % i))})
    seen, uniq = set(), []
    for q in reqs:
        k = (q["derive"], q["item"])
        if k not in seen:
            seen.add(k)
            uniq.append(q)
    uniq = [dict(q, parse=True) for q in uniq]
    res = svc(uniq, timeout=300)
    # these generators write valid Rust by construction; an item that does not parse is their bug, reported as such
    evaluate(chk, "f_cross_property_corpus", uniq, res)
    chk.part("f_cross_property_corpus", inputs=len(uniq), sources=["C01 supported-shape space", "C17 documented spellings and corruptions", "C09 Error layouts with 0..3 fields"])


INTERNAL_PANIC = re.compile(r"called `(?:Option|Result)::unwrap\(\)`|called `Option::expect|index out of bounds|out of range for slice|byte index|is not a char boundary|"
                            r"internal error|entered unreachable code|not implemented|not yet implemented|attempt to (?:add|subtract|multiply|divide|negate)|"
                            r"already (?:mutably )?borrowed|assertion (?:`?left|failed)|capacity overflow|explicit panic")


def part_h(chk, thorough):
    """Deeply nested argument expressions and types under the REAL compiler: the statement names stack exhaustion.  rustc itself takes
    `((((..1000..))))` and `!!!!..3000..true`; each program is built by its own rustc process (a stack overflow kills the process, so
    the verdict is read off the process: a signal, or `SIGSEGV` / `stack overflow` in its output, is an internal failure)."""
    from compile_engine import Case, CompileEngine
    deep = "(" * 1000 + "1" + ")" * 1000
    bangs = "!" * 3000 + "true"
    refs = "&" * 2000 + "1"
    brackets = "[" * 600 + "1" + "]" * 600
    progs = [("Display", '#[display("{}", %s)] pub struct S(pub i32);' % deep), ("Display", '#[display("{}", %s)] pub struct S(pub i32);' % bangs), ("Debug", '#[debug("{} {}", _0, %s)] pub struct S(pub i32);' % deep),
             ("Display", 'pub enum S { #[display("{x} {}", %s)] A { x: u8 }, #[display("b")] B }' % refs), ("LowerHex", '#[lower_hex("{:?}", %s)] pub struct S;' % brackets),
             ("Debug", 'pub struct S(#[debug("{}", %s)] pub i32);' % bangs),
             ("Display", '#[display("{}", { let _f = %s a; 0 })] pub struct S;' % ("|a: u8| " * 700)), ("Display", '#[display("{}", %s)] pub struct S;' % ("x = " * 1500 + "1")),
             # ... prefix keywords nest to the right like prefix operators do (second reading of 31d1353)
             ("Display", '#[display("{}", { %s 1u8 })] pub struct S;' % ("return " * 1000)), ("Display", '#[display("{:p}", %s 1u8)] pub struct S;' % ("&mut " * 1000)),
             ("Display", '#[display("{}", %s { 0 })] pub struct S(pub u8);' % ("if *_0 == 1 { 1 } else " * 1000)),
             ("Display", '#[display("{}", loop { %s 1u8 })] pub struct S;' % ("break " * 1000)),
             # ... closure heads with commas in them, assignments with `;` and `,` inside each link (fourth reading, of 925a5af)
             ("Display", '#[display("{}", { let _f = %s a + b; 0 })] pub struct S;' % ("|a: u8, b: u8| " * 700)),
             ("Display", '#[display("{}", { let mut v = [0u8; 2]; %s 1; 0 })] pub struct S;' % ("v[{ ; 0 }] = " * 1000)),
             ("Display", '#[display("{}", { let mut v = [0u8; 2]; %s 1; 0 })] pub struct S;' % ("v[f(0, 1)] = " * 1000)),
             # ... `move` between the heads, and the `&mut` chain with a `*` in each link (fifth reading, of 193dce3 / 925a5af)
             ("Display", '#[display("{}", { let _f = %s 1u8; 0 })] pub struct S;' % "".join("move |a%d: u8| " % i for i in range(700))),
             ("Display", '#[display("{}", %s 1u8)] pub struct S;' % ("*&mut " * 1500)),
             # ... labelled breaks and shift-assignments (sixth reading, of cf39250)
             ("Display", '#[display("{}", \'a: loop { %s 1u32 })] pub struct S;' % ("break \'a " * 1000)),
             ("Display", '#[display("{}", { let mut x = 1u32; %s 1; x })] pub struct S;' % ("x <<= " * 1500)),
             # ... and so do types: `fn() -> fn() -> ..`, `&'static &'static ..` (third reading, of 60f08cd)
             ("Display", '#[display("{}", { let _f: Option<%s u8> = None; 0 })] pub struct S;' % ("fn() -> " * 1000)),
             ("Display", '#[display("{}", { let _f: Option<%s u8> = None; 0 })] pub struct S;' % ("&\'static " * 1000))]
    eng = CompileEngine("C18H", mode="check", per_bin=1)
    eng._write_crate()
    for i, (d, item) in enumerate(progs):
        eng._write_bin(i, [Case("h%d" % i, "#[derive(derive_more::%s)] %s" % (d, item), has_run=False)])
        p = eng._cargo([eng._bin_name(i)])
        chk.count(states=1, transitions=1)
        text = (p.stdout or "") + (p.stderr or "")
        crashed = p.returncode < 0 or re.search(r"SIGSEGV|SIGABRT|SIGBUS|stack overflow|signal: \d+", text)
        short = "#[derive(%s)] %s" % (d, item if len(item) < 160 else item[:70] + " ..(%d chars).. " % len(item) + item[-40:])
        if crashed:
            chk.outcome("deep-nesting-compiler-crash")
            m = re.search(r"[^\n]*(SIGSEGV|SIGABRT|stack overflow|signal: \d+)[^\n]*", text)
            chk.violation("internal failure: the compiler process died on a deeply nested argument (%s, program %d)" % (d, i), short, (m.group(0) if m else "exit %d" % p.returncode)[:300])
        elif p.returncode == 0:
            chk.outcome("deep-nesting-compiles")
        else:
            chk.outcome("deep-nesting-diagnosed")
    chk.part("h_deep_nesting", programs=len(progs), shapes=["1000 nested parentheses", "3000 prefix `!`", "2000 prefix `&`", "600 nested brackets", "700 nested closures", "1500 chained assignments", "1000 `return`", "1000 `&mut`", "1000 `else if`", "1000 `break`", "1000 `break 'a`", "1500 `<<=`", "700 nested `move` closures", "1500 `*&mut`", "700 nested closures with two typed parameters", "1000 chained assignments with a `;` / a `,` inside each target", "1000 `fn() ->` in a type", "1000 `&'static` in a type"], oracle="one rustc process per program: it must end by itself (ok or diagnostics), not by a signal")


def part_g(chk, thorough):
    """Rejected inputs under the REAL compiler.  In-process the expanders run on proc_macro2's fallback implementation, where e.g.
    `Span::join` always succeeds; under rustc (stable) it returns None.  Every input the expanders reject in-process - C17's
    single-step corruptions and, per derive, the rejected (shape, attribute) pairs of part (a) - is compiled: it must fail with a
    diagnostic, and a `proc-macro derive panicked` whose message is that of an unwrap / index / unreachable is an internal failure."""
    import c17
    from compile_engine import Case, CompileEngine
    items = [(d, item) for d, cls, item, rustc in (c17.corruptions() + c17.shifted_corruptions())]
    derives = sorted({d for d, _ in items})
    shapes = [s for s in item_shapes() if not re.search(r"dyn_ty|impl_ty|\bTr\b|\bdyn\b|!|r#Self_", s)]
    reqs = []
    out = subprocess.run([inproc_bin(), "derives"], stdout=subprocess.PIPE, text=True, env=base_env(), check=True).stdout
    for d in [json.loads(l) for l in out.splitlines() if l.strip()]:
        for sh in shapes:
            reqs.append({"derive": d["name"], "item": sh})
            for a in d["attrs"]:
                for arg in ("", "(forward)", "(\"{}\")", "(ignore)", "(ref, ref)", "(x = 1)"):
                    reqs.append({"derive": d["name"], "item": "#[%s%s] %s" % (a, arg, sh)})
                reqs.append({"derive": d["name"], "item": "#[%s] #[%s] %s" % (a, a, sh)})          # the same attribute twice: the duplicate path
                reqs.append({"derive": d["name"], "item": "#[%s(ignore)] #[%s(ignore)] %s" % (a, a, sh)})
    res = svc(reqs, timeout=300)
    per = {}
    for q, r in zip(reqs, res):
        if r["k"] in ("err", "panic"):
            key = (q["derive"], re.sub(r"\s+", " ", r.get("msg", ""))[:60])      # one representative per (derive, diagnostic text)
            if key not in per or len(q["item"]) < len(per[key][1]):
                per[key] = (q["derive"], q["item"])
    items += sorted(per.values())
    seen, uniq = set(), []
    for it in items:
        if it not in seen:
            seen.add(it)
            uniq.append(it)
    cases = [Case("g%d" % k, "#[allow(unused_imports)] use super::*;\n#[derive(derive_more::%s)] %s" % (d, item), expect="fail", has_run=False, meta=dict(d=d, item=item))
             for k, (d, item) in enumerate(uniq)]
    eng = CompileEngine("C18G", mode="check", per_bin=max(8, len(cases) // 32 + 1))
    results = eng.run_cases(cases)
    for c in cases:
        r = results[c.cid]
        chk.count(states=1, transitions=1)
        text = " ".join(d["message"] + " " + d["rendered"] for d in r.diags)
        if "proc-macro derive panicked" in text or "proc macro panicked" in text:
            m = re.search(r"message: (.*)", text)
            msg = m.group(1) if m else ""
            if INTERNAL_PANIC.search(text):
                chk.outcome("g_rustc/panic-internal")
                chk.violation("internal failure under rustc: " + shorten(re.sub(r"\d+", "N", msg)[:100]), "derive(%s) on: %s" % (c.meta["d"], c.meta["item"]), text[:900])
            else:
                chk.outcome("g_rustc/panic-with-a-message")
        elif "internal compiler error" in text:
            chk.outcome("g_rustc/ice")
            chk.violation("internal compiler error on a derive input", "derive(%s) on: %s" % (c.meta["d"], c.meta["item"]), text[:900])
        elif r.compile == "error":
            chk.outcome("g_rustc/diagnostic")
        else:
            chk.outcome("g_rustc/accepted")     # rejected in-process, fine for rustc (cfg-dependent attribute handling): nothing to decide here
    chk.part("g_rejected_inputs_under_rustc", inputs=len(cases), sources=["C17 single-step corruptions", "one representative per (derive, in-process diagnostic) over shapes x attribute forms, incl. repeated attributes"],
             bins_built=eng.bins_built, build_s=round(eng.build_s, 1))


def run(chk, tier):
    thorough = tier == "thorough"
    exe = inproc_bin()
    out = subprocess.run([exe, "derives"], stdout=subprocess.PIPE, text=True, env=base_env(), check=True).stdout
    derives = [json.loads(l) for l in out.splitlines() if l.strip()]
    if len(derives) != 50:
        raise MachineryError("expected 50 derives in the table generated from lib.rs, found %d" % len(derives))
    part_a(chk, derives)
    part_e(chk)
    part_f(chk, thorough)
    part_g(chk, thorough)
    part_h(chk, thorough)
    sweep(chk, "parser", ["--len", "5" if thorough else "4"], "b_parser_direct")
    sweep(chk, "lit", ["--len", "4" if thorough else "3"], "b_literals_in_attributes")
    if thorough:
        sweep(chk, "tok", ["--len", "3"], "c_tokens_full_len3")
        sweep(chk, "tok", ["--len", "4", "--small"], "c_tokens_small_len4")
    else:
        sweep(chk, "tok", ["--len", "2"], "c_tokens_full_len2")
        sweep(chk, "tok", ["--len", "3", "--small"], "c_tokens_small_len3")
    part_d(chk, thorough)
    for d in derives[:6]:
        chk.sample({"derive": d["name"], "attrs": d["attrs"], "from": "derive table generated from impl/src/lib.rs"})
    chk.sample({"space": "lit", "example": "position 5 (Display) literal \"{:>1$\" -> #[display(\"{:>1$\", _0, x = _1)] struct S<T>(T, T);"})
    chk.sample({"space": "tok", "example": "derive(Into) on: #[into( owned  (u8)  , )] struct S { a: u8, b: u8 }"})
    chk.assumptions += [
        "a panic is deliberate iff raised by panic!/assert!/panic_one_field with a message inside /repo/impl/src; unreachable!, unimplemented!, unwrap/expect, indexing, overflow, and any panic inside syn/quote/proc-macro2 are internal failures",
        "nesting depth is capped at 64 (rustc's own recursion limit is 128); repetition goes to 2^8 (quick) / 2^9 (thorough); TryUnwrap/Unwrap output is quadratic in the number of variants by construction (each accessor lists every variant), which is polynomial and therefore not a violation of 'bounded time'",
        "engine built with overflow-checks and debug-assertions on",
    ]
