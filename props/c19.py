"""C19 - expansion is a deterministic pure function of the derive input (DESIGN.md §3 C19)."""
import itertools
import json
import os
import re
import shutil
import subprocess
from concurrent.futures import ThreadPoolExecutor

from common import MachineryError, NCPU, REPO, TARGET, WORK, base_env, inproc_bin
from common import run as sh


def call(exe, args, env_pad=0, threads=None):
    env = base_env()
    if env_pad:
        env["VERIF_PAD"] = "x" * env_pad
    if threads:
        env["RAYON_NUM_THREADS"] = str(threads)
    p = subprocess.run([exe, "c19"] + args, stdout=subprocess.PIPE, stderr=subprocess.PIPE, text=True, env=env, timeout=120)
    if p.returncode != 0:
        raise MachineryError("c19 %s failed: %s" % (args, p.stderr[-500:]))
    return p.stdout


def run_(chk, tier):
    thorough = tier == "thorough"
    exe = inproc_bin()
    inputs = [json.loads(l) for l in call(exe, ["list"]).splitlines() if l.strip()]
    n = len(inputs)
    pool = ThreadPoolExecutor(max_workers=NCPU)
    fresh = list(pool.map(lambda i: call(exe, ["seq", str(i)]), range(n)))
    for i, f in enumerate(fresh):
        if f.startswith("NOT-OK"):
            raise MachineryError("alphabet input %d does not expand: %s" % (i, f[:300]))
    # ---- histories: every sequence up to length L, each in its own process; the last expansion must equal the fresh one
    L = 3 if thorough else 2
    seqs = [s for k in range(2, L + 1) for s in itertools.product(range(n), repeat=k)]
    outs = list(pool.map(lambda s: call(exe, ["seq", ",".join(map(str, s))]), seqs))
    distinct = set()
    for s, o in zip(seqs, outs):
        chk.count(states=1, transitions=len(s))
        distinct.add(hash(o))
        if o != fresh[s[-1]]:
            chk.outcome("history-dependent")
            chk.violation("expansion depends on earlier expansions: %s" % inputs[s[-1]]["derive"],
                          {"history": [inputs[i]["derive"] for i in s[:-1]], "input": inputs[s[-1]]},
                          first_diff(fresh[s[-1]], o))
        else:
            chk.outcome("history-independent/" + inputs[s[-1]]["derive"])
    chk.part("histories", alphabet=n, max_len=L, sequences=len(seqs), distinct_final_expansions=len(distinct),
             note="each sequence runs in its own process; the expansion of its last element is compared byte for byte with that element's expansion in a fresh process")
    # ---- processes: M fresh processes per input, varying environment size, thread, and thread-pool size
    M = 64 if thorough else 8
    jobs = [(i, m) for i in range(n) for m in range(M)]
    res = list(pool.map(lambda j: call(exe, ["seq", str(j[0])] + (["--thread"] if j[1] % 2 else []), env_pad=(j[1] * 1371) % 60000, threads=1 + j[1] % 7), jobs))
    for (i, m), o in zip(jobs, res):
        chk.count(states=1, transitions=1)
        if o != fresh[i]:
            chk.outcome("process-dependent")
            chk.violation("expansion differs between processes: %s" % inputs[i]["derive"], inputs[i], first_diff(fresh[i], o))
        else:
            chk.outcome("process-independent/" + inputs[i]["derive"])
    chk.part("processes", per_input=M, varied=["environment size 0..60 kB", "main thread vs spawned thread", "RAYON_NUM_THREADS 1..7"])
    # ---- seam: the hasher behind utils::HashMap/HashSet
    hs = list(pool.map(lambda m: json.loads(call(exe, ["hasher"], env_pad=m * 997)), range(M)))
    for h in hs:
        chk.count(states=1, transitions=1)
        if h["h1"] != h["h2"]:
            chk.violation("two separately built hashers of utils::HashMap disagree", "DeterministicState::default().build_hasher() x2", json.dumps(h)[:300])
        if h != hs[0]:
            chk.violation("hash values / iteration order of utils::HashMap differ between processes", "64-key map and set", "first: %s\nother: %s" % (json.dumps(hs[0])[:300], json.dumps(h)[:300]))
    chk.outcome("hasher-stable", len(hs))
    chk.part("hasher_seam", processes=M, observed=["hash of a fixed key by two separately built hashers", "iteration order of a 64-key HashMap and HashSet"])
    for i in (0, 1, 4):
        chk.sample({"derive": inputs[i]["derive"], "item": inputs[i]["item"], "expansion_sha": hex(hash(fresh[i]) & 0xffffffff), "expansion_len": len(fresh[i])})
    chk.sample({"history": [inputs[i]["derive"] for i in seqs[len(seqs) // 2]], "verdict": "last expansion equals fresh-process expansion"})
    corpus(chk, thorough)
    if thorough:
        real_pipeline(chk, inputs)
    chk.assumptions += ["hash seeds cannot be enumerated or controlled from outside std; what is exhaustive is the history dimension (all sequences up to the bound) and the repetition over fresh processes",
                        "expansion text of the in-process seam equals what the proc-macro returns to rustc (same functions; the thorough tier also compares rustc's -Zunpretty=expanded output)"]


def corpus_requests(thorough):
    """A broad corpus of derive inputs: C01's supported-shape space (every derive x templates x generics), C17's documented
    attribute spellings, and C09's Error field layouts (2 fields quick / 3 fields thorough)."""
    import c01
    import c09
    import c17
    reqs = list(c01.build(thorough)[4])
    for d, desc, forms in c17.all_spellings():
        reqs += [{"derive": d, "item": f} for f in forms]
    for named, fields in c09.layouts(3 if thorough else 2):
        for container in ("struct", "enum"):
            reqs.append({"derive": "Error", "item": c09.item_text(named, fields, container, lambda f, i: ("my::Backtrace" if f["ty"] == "bt" else "E%d" % i))})
    reqs += repo_inputs()
    # recursive generic types with MANY parameters (the per-parameter bounds that replace a recursive bound, `break_recursive_bounds`):
    # an order taken from a randomly seeded collection has 5! = 120 outcomes here, so two processes agree by chance once in 120
    for d, a in (("Debug", ""), ("Display", '#[display("{a}{b}{c}{d}{e}")] '), ("Debug", '#[debug("{a:?}{kids:?}")] ')):
        reqs.append({"derive": d, "item": a + "struct Tree<A, B, C, D, E> { a: A, b: B, c: C, d: D, e: E, kids: Vec<Tree<A, B, C, D, E>>, up: Option<Box<Self>> }"})
        reqs.append({"derive": d, "item": "enum Tree<A, B, C, D, E> { %sLeaf { a: A, b: B, c: C, d: D, e: E }, %sNode(Vec<Tree<E, D, C, B, A>>) }" % (a, '#[%s("n")] ' % d.lower() if a else "")})
    # textual twins: the same item with its generic parameter list removed, so that `T`, `U`, `N`, 'a in its field types now
    # name concrete things - any state kept between expansions that is keyed by token text confuses the two
    twins = []
    for q in reqs:
        t = strip_generics(q["item"])
        if t is not None:
            twins.append({"derive": q["derive"], "item": t})
    reqs += twins
    seen, out = set(), []
    for q in reqs:
        k = (q["derive"], q["item"])
        if k not in seen:
            seen.add(k)
            out.append(q)
    return out


_REPO_INPUTS = None


def repo_inputs():
    """Every derive input written in the repository's own tests (tests/*.rs, items in modules and function bodies) and in the
    examples of its documentation (impl/doc/*.md, README.md): what the maintainers themselves consider ordinary use.  Extracted
    from the current tree by the engine's `cover --dump --bare` (syn), so it follows the tree under test."""
    global _REPO_INPUTS
    if _REPO_INPUTS is not None:
        return _REPO_INPUTS
    files = sorted(os.path.join(dp, f) for dp, _, fs in os.walk(os.path.join(REPO, "tests")) for f in fs if f.endswith(".rs"))   # incl. tests/compile_fail: rejected inputs are inputs too
    d = os.path.join(WORK, "c19-docs")
    shutil.rmtree(d, ignore_errors=True)
    os.makedirs(d)
    docs = [os.path.join(REPO, "README.md")] + sorted(os.path.join(REPO, "impl", "doc", f) for f in os.listdir(os.path.join(REPO, "impl", "doc")) if f.endswith(".md"))
    for md in docs:
        try:
            text = open(md).read()
        except OSError:
            continue
        for k, m in enumerate(re.finditer(r"```rust[^\n]*\n(.*?)```", text, re.S)):
            body = "\n".join(l[2:] if l.startswith("# ") else ("" if l.strip() == "#" else l) for l in m.group(1).split("\n"))
            path = os.path.join(d, "%s_%d.rs" % (os.path.basename(md)[:-3], k))
            with open(path, "w") as f:
                f.write(body)
            files.append(path)
    p = subprocess.run([inproc_bin(), "cover", "--dump", "--bare"] + files, stdout=subprocess.PIPE, stderr=subprocess.PIPE, text=True, env=base_env(), timeout=600)
    if p.returncode != 0:
        raise MachineryError("cover --dump failed: " + p.stderr[-500:])
    out = [json.loads(l) for l in p.stdout.splitlines() if l.strip()]
    if len(out) < 500:
        raise MachineryError("only %d derive inputs extracted from the repository's tests and docs (expected thousands)" % len(out))
    _REPO_INPUTS = out
    return out


def strip_generics(item):
    """`... struct S<'a, T: Tr = u8, const N: usize>(..)` -> `... struct S(..)` (None when the item declares no parameters)."""
    m = re.search(r"\b(struct|enum|union)\s+(r#)?\w+\s*<", item)
    if not m:
        return None
    i = m.end() - 1
    depth, k = 0, i
    while k < len(item):
        c = item[k]
        if c == "<":
            depth += 1
        elif c == ">" and item[k - 1] != "-":
            depth -= 1
            if depth == 0:
                break
        k += 1
    if depth != 0:
        return None
    return item[:i] + item[k + 1:]


def svc_order(exe, reqs, order, serial, threads, pad):
    env = base_env()
    env["VERIF_PAD"] = "x" * pad
    env["RAYON_NUM_THREADS"] = str(threads)
    lines = "\n".join(json.dumps({"id": i, "derive": reqs[i]["derive"], "item": reqs[i]["item"]}) for i in order) + "\n"
    p = subprocess.run([exe, "svc"] + (["--serial"] if serial else []), input=lines, stdout=subprocess.PIPE, stderr=subprocess.PIPE, text=True, env=env, timeout=900)
    if p.returncode != 0:
        raise MachineryError("svc failed on the C19 corpus: rc=%s %s" % (p.returncode, p.stderr[-400:]))
    out = {}
    for l in p.stdout.splitlines():
        if l.strip():
            r = json.loads(l)
            out[r["id"]] = (r["k"], r.get("out") or r.get("msg") or "")
    if len(out) != len(reqs):
        raise MachineryError("svc returned %d results for %d requests" % (len(out), len(reqs)))
    return out


def corpus(chk, thorough):
    """Every input of a broad corpus expanded in several processes that differ in what was expanded before it on the same
    thread (order, interleaving, thread count): the result (tokens or diagnostic) must be the same text every time."""
    exe = inproc_bin()
    reqs = corpus_requests(thorough)
    n = len(reqs)
    fwd = list(range(n))
    by_hash = sorted(fwd, key=lambda i: (hash_str(reqs[i]["item"]), i))
    by_derive = sorted(fwd, key=lambda i: (reqs[i]["derive"], i))
    stride = [i for r in range(7) for i in range(r, n, 7)]
    configs = [("forward/serial", fwd, True, 1), ("reverse/serial", fwd[::-1], True, 1), ("by-item-hash/serial", by_hash, True, 1), ("grouped-by-derive-reversed/serial", by_derive[::-1], True, 1),
               ("stride-7/serial", stride, True, 1), ("forward/16-threads", fwd, False, 16), ("reverse/3-threads", fwd[::-1], False, 3)]
    if thorough:
        configs += [("stride-7-reversed/serial", stride[::-1], True, 1), ("by-item-hash/5-threads", by_hash, False, 5), ("by-item-hash-reversed/serial", by_hash[::-1], True, 1),
                    ("forward/2-threads", fwd, False, 2), ("grouped-by-derive/serial", by_derive, True, 1)]
    with ThreadPoolExecutor(max_workers=4) as pool:
        outs = list(pool.map(lambda c: svc_order(exe, reqs, c[1][1], c[1][2], c[1][3], (c[0] * 7919) % 50000), list(enumerate(configs))))
    base = outs[0]
    oks = sum(1 for v in base.values() if v[0] == "ok")
    for (name, order, serial, threads), o in zip(configs[1:], outs[1:]):
        for i in fwd:
            chk.count(states=1, transitions=1)
            if o[i] != base[i]:
                chk.outcome("corpus-order-dependent")
                chk.violation("corpus: expansion depends on process / expansion order: %s" % reqs[i]["derive"], {"input": reqs[i], "orders": ["forward/serial", name]},
                              first_diff(base[i][1], o[i][1]) if o[i][0] == base[i][0] else "outcome kind %s vs %s" % (base[i][0], o[i][0]))
            else:
                chk.outcome("corpus-stable")
    chk.part("corpus", inputs=n, expanding_ok=oks, diagnostics=n - oks, derives=len({q["derive"] for q in reqs}), processes=len(configs), orders=[c[0] for c in configs],
             note="sources: C01 supported-shape space, C17 documented attribute spellings, C09 Error layouts; each configuration is one fresh process expanding the whole corpus in the named order")


def hash_str(s):
    h = 1469598103934665603
    for ch in s.encode():
        h = ((h ^ ch) * 1099511628211) & 0xFFFFFFFFFFFFFFFF
    return h


def first_diff(a, b):
    k = next((i for i, (x, y) in enumerate(zip(a, b)) if x != y), min(len(a), len(b)))
    return "first difference at byte %d: ...%s | ...%s" % (k, a[max(0, k - 60):k + 80], b[max(0, k - 60):k + 80])


def real_pipeline(chk, inputs):
    """The inputs in two source orders through the real proc-macro (`-Zunpretty=expanded`), twice from clean."""
    texts = {}
    for order_name, order in (("forward", list(range(len(inputs)))), ("reverse", list(reversed(range(len(inputs)))))):
        for rep in (0, 1):
            d = os.path.join(WORK, "c19-%s-%d" % (order_name, rep))
            shutil.rmtree(d, ignore_errors=True)
            os.makedirs(os.path.join(d, "src"))
            with open(os.path.join(d, "Cargo.toml"), "w") as f:
                f.write('[package]\nname = "c19pipe"\nversion = "0.0.0"\nedition = "2021"\n[workspace]\n[dependencies]\nderive_more = { path = "%s", features = ["full"] }\n' % REPO)
            shutil.copy(os.path.join(REPO, "Cargo.lock"), os.path.join(d, "Cargo.lock"))
            with open(os.path.join(d, "src", "lib.rs"), "w") as f:
                f.write("#![allow(unused)]\n")
                for i in order:
                    f.write("pub mod m%d { #[derive(derive_more::%s)] %s }\n" % (i, inputs[i]["derive"], inputs[i]["item"]))
            env = base_env()
            env["CARGO_TARGET_DIR"] = os.path.join(d, "target")   # clean build each time
            p = sh(["cargo", "+nightly", "rustc", "--offline", "--lib", "--", "-Zunpretty=expanded"], cwd=d, env=env, timeout=1200)
            if "pub mod m0" not in p.stdout:
                raise MachineryError("unpretty=expanded produced no output: %s" % p.stderr[-2000:])
            mods = {}
            for m in re.finditer(r"pub mod m(\d+) \{(.*?)\n\}\n", p.stdout, re.S):
                mods[int(m.group(1))] = m.group(2)
            if len(mods) != len(inputs):
                raise MachineryError("could not split expanded output into %d modules (got %d)" % (len(inputs), len(mods)))
            texts[(order_name, rep)] = mods
            shutil.rmtree(d, ignore_errors=True)
    base = texts[("forward", 0)]
    for key, mods in texts.items():
        for i, t in mods.items():
            chk.count(states=1, transitions=1)
            if t != base[i]:
                chk.violation("real pipeline: expansion differs (%s build #%d): %s" % (key[0], key[1], inputs[i]["derive"]), inputs[i], first_diff(base[i], t))
            else:
                chk.outcome("pipeline-stable")
    chk.part("real_pipeline", builds=len(texts), note="cargo +nightly rustc -- -Zunpretty=expanded, two source orders x two clean builds, per-item text compared")


def run(chk, tier):
    run_(chk, tier)
