"""C19 - expansion is a deterministic pure function of the derive input (DESIGN.md §3 C19)."""
import itertools
import json
import os
import re
import shutil
import subprocess
from concurrent.futures import ThreadPoolExecutor

from common import MachineryError, NCPU, REPO, TARGET, WORK, base_env, inproc_bin
from common import run as sh


def call(exe, args, env_pad=0, threads=None):
    env = base_env()
    if env_pad:
        env["VERIF_PAD"] = "x" * env_pad
    if threads:
        env["RAYON_NUM_THREADS"] = str(threads)
    p = subprocess.run([exe, "c19"] + args, stdout=subprocess.PIPE, stderr=subprocess.PIPE, text=True, env=env, timeout=120)
    if p.returncode != 0:
        raise MachineryError("c19 %s failed: %s" % (args, p.stderr[-500:]))
    return p.stdout


def run_(chk, tier):
    thorough = tier == "thorough"
    exe = inproc_bin()
    inputs = [json.loads(l) for l in call(exe, ["list"]).splitlines() if l.strip()]
    n = len(inputs)
    pool = ThreadPoolExecutor(max_workers=NCPU)
    fresh = list(pool.map(lambda i: call(exe, ["seq", str(i)]), range(n)))
    for i, f in enumerate(fresh):
        if f.startswith("NOT-OK"):
            raise MachineryError("alphabet input %d does not expand: %s" % (i, f[:300]))
    # ---- histories: every sequence up to length L, each in its own process; the last expansion must equal the fresh one
    L = 3 if thorough else 2
    seqs = [s for k in range(2, L + 1) for s in itertools.product(range(n), repeat=k)]
    outs = list(pool.map(lambda s: call(exe, ["seq", ",".join(map(str, s))]), seqs))
    distinct = set()
    for s, o in zip(seqs, outs):
        chk.count(states=1, transitions=len(s))
        distinct.add(hash(o))
        if o != fresh[s[-1]]:
            chk.outcome("history-dependent")
            chk.violation("expansion depends on earlier expansions: %s" % inputs[s[-1]]["derive"],
                          {"history": [inputs[i]["derive"] for i in s[:-1]], "input": inputs[s[-1]]},
                          first_diff(fresh[s[-1]], o))
        else:
            chk.outcome("history-independent/" + inputs[s[-1]]["derive"])
    chk.part("histories", alphabet=n, max_len=L, sequences=len(seqs), distinct_final_expansions=len(distinct),
             note="each sequence runs in its own process; the expansion of its last element is compared byte for byte with that element's expansion in a fresh process")
    # ---- processes: M fresh processes per input, varying environment size, thread, and thread-pool size
    M = 64 if thorough else 8
    jobs = [(i, m) for i in range(n) for m in range(M)]
    res = list(pool.map(lambda j: call(exe, ["seq", str(j[0])] + (["--thread"] if j[1] % 2 else []), env_pad=(j[1] * 1371) % 60000, threads=1 + j[1] % 7), jobs))
    for (i, m), o in zip(jobs, res):
        chk.count(states=1, transitions=1)
        if o != fresh[i]:
            chk.outcome("process-dependent")
            chk.violation("expansion differs between processes: %s" % inputs[i]["derive"], inputs[i], first_diff(fresh[i], o))
        else:
            chk.outcome("process-independent/" + inputs[i]["derive"])
    chk.part("processes", per_input=M, varied=["environment size 0..60 kB", "main thread vs spawned thread", "RAYON_NUM_THREADS 1..7"])
    # ---- seam: the hasher behind utils::HashMap/HashSet
    hs = list(pool.map(lambda m: json.loads(call(exe, ["hasher"], env_pad=m * 997)), range(M)))
    for h in hs:
        chk.count(states=1, transitions=1)
        if h["h1"] != h["h2"]:
            chk.violation("two separately built hashers of utils::HashMap disagree", "DeterministicState::default().build_hasher() x2", json.dumps(h)[:300])
        if h != hs[0]:
            chk.violation("hash values / iteration order of utils::HashMap differ between processes", "64-key map and set", "first: %s\nother: %s" % (json.dumps(hs[0])[:300], json.dumps(h)[:300]))
    chk.outcome("hasher-stable", len(hs))
    chk.part("hasher_seam", processes=M, observed=["hash of a fixed key by two separately built hashers", "iteration order of a 64-key HashMap and HashSet"])
    for i in (0, 1, 4):
        chk.sample({"derive": inputs[i]["derive"], "item": inputs[i]["item"], "expansion_sha": hex(hash(fresh[i]) & 0xffffffff), "expansion_len": len(fresh[i])})
    chk.sample({"history": [inputs[i]["derive"] for i in seqs[len(seqs) // 2]], "verdict": "last expansion equals fresh-process expansion"})
    if thorough:
        real_pipeline(chk, inputs)
    chk.assumptions += ["hash seeds cannot be enumerated or controlled from outside std; what is exhaustive is the history dimension (all sequences up to the bound) and the repetition over fresh processes",
                        "expansion text of the in-process seam equals what the proc-macro returns to rustc (same functions; the thorough tier also compares rustc's -Zunpretty=expanded output)"]


def first_diff(a, b):
    k = next((i for i, (x, y) in enumerate(zip(a, b)) if x != y), min(len(a), len(b)))
    return "first difference at byte %d: ...%s | ...%s" % (k, a[max(0, k - 60):k + 80], b[max(0, k - 60):k + 80])


def real_pipeline(chk, inputs):
    """The inputs in two source orders through the real proc-macro (`-Zunpretty=expanded`), twice from clean."""
    texts = {}
    for order_name, order in (("forward", list(range(len(inputs)))), ("reverse", list(reversed(range(len(inputs)))))):
        for rep in (0, 1):
            d = os.path.join(WORK, "c19-%s-%d" % (order_name, rep))
            shutil.rmtree(d, ignore_errors=True)
            os.makedirs(os.path.join(d, "src"))
            with open(os.path.join(d, "Cargo.toml"), "w") as f:
                f.write('[package]\nname = "c19pipe"\nversion = "0.0.0"\nedition = "2021"\n[workspace]\n[dependencies]\nderive_more = { path = "%s", features = ["full"] }\n' % REPO)
            shutil.copy(os.path.join(REPO, "Cargo.lock"), os.path.join(d, "Cargo.lock"))
            with open(os.path.join(d, "src", "lib.rs"), "w") as f:
                f.write("#![allow(unused)]\n")
                for i in order:
                    f.write("pub mod m%d { #[derive(derive_more::%s)] %s }\n" % (i, inputs[i]["derive"], inputs[i]["item"]))
            env = base_env()
            env["CARGO_TARGET_DIR"] = os.path.join(d, "target")   # clean build each time
            p = sh(["cargo", "+nightly", "rustc", "--offline", "--lib", "--", "-Zunpretty=expanded"], cwd=d, env=env, timeout=1200)
            if "pub mod m0" not in p.stdout:
                raise MachineryError("unpretty=expanded produced no output: %s" % p.stderr[-2000:])
            mods = {}
            for m in re.finditer(r"pub mod m(\d+) \{(.*?)\n\}\n", p.stdout, re.S):
                mods[int(m.group(1))] = m.group(2)
            if len(mods) != len(inputs):
                raise MachineryError("could not split expanded output into %d modules (got %d)" % (len(inputs), len(mods)))
            texts[(order_name, rep)] = mods
            shutil.rmtree(d, ignore_errors=True)
    base = texts[("forward", 0)]
    for key, mods in texts.items():
        for i, t in mods.items():
            chk.count(states=1, transitions=1)
            if t != base[i]:
                chk.violation("real pipeline: expansion differs (%s build #%d): %s" % (key[0], key[1], inputs[i]["derive"]), inputs[i], first_diff(base[i], t))
            else:
                chk.outcome("pipeline-stable")
    chk.part("real_pipeline", builds=len(texts), note="cargo +nightly rustc -- -Zunpretty=expanded, two source orders x two clean builds, per-item text compared")


def run(chk, tier):
    run_(chk, tier)
