"""C01 - every supported derive input is accepted and expands to code that compiles warning-free
(DESIGN.md §3 C01).

Programs = derive x documented shape/attribute mode x generics signature x naming x decoration, built from the
support table below (transcribed from impl/doc/*.md).  Seam B decides: crate root `#![deny(warnings)]`, zero
diagnostics attributed to a case that its control twin (same items, derive and helper attributes stripped) does
not show as well.  Seam A adds structural invariants on every generated impl header."""
import re

from common import svc
from compile_engine import Case, CompileEngine

HEADER = "#![deny(warnings)]\n#![allow(dead_code, non_camel_case_types)]\n"

PRELUDE = r'''
use ::core::marker::PhantomData;
pub trait Tr { type A; }
pub trait Tr2 {}
pub trait Tr3<X: ?Sized> {}
pub trait TrL<'a>: 'a {}
#[allow(unused_macros)] macro_rules! ObjM { () => { dyn ::core::fmt::Debug }; ($l:lifetime) => { dyn TrL<$l> }; }
#[allow(unused_macros)] macro_rules! PtrM { () => { *const dyn ::core::fmt::Debug }; (mut) => { *mut dyn ::core::fmt::Debug }; }
impl Tr for u8 { type A = u8; }
impl Tr2 for u8 {}
/// carrier: uses every declared parameter (through X and N) and implements every trait any derive needs, for all X, N
pub struct H<X: ?Sized, const N: usize>(pub [u8; N], pub PhantomData<X>);
impl<X: ?Sized, const N: usize> Clone for H<X, N> { fn clone(&self) -> Self { H(self.0, PhantomData) } }
impl<X: ?Sized, const N: usize> Copy for H<X, N> {}
impl<X: ?Sized, const N: usize> PartialEq for H<X, N> { fn eq(&self, o: &Self) -> bool { self.0 == o.0 } }
macro_rules! fmt_impl { ($($t:ident),*) => { $( impl<X: ?Sized, const N: usize> ::core::fmt::$t for H<X, N> { fn fmt(&self, f: &mut ::core::fmt::Formatter<'_>) -> ::core::fmt::Result { f.write_str("h") } } )* } }
fmt_impl!(Display, Debug, Binary, Octal, LowerHex, UpperHex, LowerExp, UpperExp, Pointer);
macro_rules! bin_impl { ($($t:ident $m:ident $ta:ident $ma:ident),*) => { $(
    impl<X: ?Sized, const N: usize> ::core::ops::$t for H<X, N> { type Output = Self; fn $m(self, _: Self) -> Self { self } }
    impl<X: ?Sized, const N: usize> ::core::ops::$ta for H<X, N> { fn $ma(&mut self, _: Self) {} }
)* } }
bin_impl!(Add add AddAssign add_assign, Sub sub SubAssign sub_assign, BitAnd bitand BitAndAssign bitand_assign, BitOr bitor BitOrAssign bitor_assign, BitXor bitxor BitXorAssign bitxor_assign,
          Mul mul MulAssign mul_assign, Div div DivAssign div_assign, Rem rem RemAssign rem_assign, Shr shr ShrAssign shr_assign, Shl shl ShlAssign shl_assign);
#[derive(Clone, Copy)] pub struct Sc;
macro_rules! sc_impl { ($($t:ident $m:ident $ta:ident $ma:ident),*) => { $(
    impl<X: ?Sized, const N: usize> ::core::ops::$t<Sc> for H<X, N> { type Output = Self; fn $m(self, _: Sc) -> Self { self } }
    impl<X: ?Sized, const N: usize> ::core::ops::$ta<Sc> for H<X, N> { fn $ma(&mut self, _: Sc) {} }
)* } }
sc_impl!(Mul mul MulAssign mul_assign, Div div DivAssign div_assign, Rem rem RemAssign rem_assign, Shr shr ShrAssign shr_assign, Shl shl ShlAssign shl_assign);
impl<X: ?Sized, const N: usize> ::core::ops::Not for H<X, N> { type Output = Self; fn not(self) -> Self { self } }
impl<X: ?Sized, const N: usize> ::core::ops::Neg for H<X, N> { type Output = Self; fn neg(self) -> Self { self } }
impl<X: ?Sized, const N: usize> ::core::iter::Sum for H<X, N> { fn sum<I: Iterator<Item = Self>>(_: I) -> Self { H([0; N], PhantomData) } }
impl<X: ?Sized, const N: usize> ::core::iter::Product for H<X, N> { fn product<I: Iterator<Item = Self>>(_: I) -> Self { H([0; N], PhantomData) } }
impl<X: ?Sized, const N: usize> ::core::ops::Deref for H<X, N> { type Target = [u8; N]; fn deref(&self) -> &[u8; N] { &self.0 } }
impl<X: ?Sized, const N: usize> ::core::ops::DerefMut for H<X, N> { fn deref_mut(&mut self) -> &mut [u8; N] { &mut self.0 } }
impl<X: ?Sized, const N: usize> AsRef<[u8]> for H<X, N> { fn as_ref(&self) -> &[u8] { &self.0 } }
impl<X: ?Sized, const N: usize> AsMut<[u8]> for H<X, N> { fn as_mut(&mut self) -> &mut [u8] { &mut self.0 } }
impl<X: ?Sized, const N: usize> ::core::ops::Index<usize> for H<X, N> { type Output = u8; fn index(&self, i: usize) -> &u8 { &self.0[i] } }
impl<X: ?Sized, const N: usize> ::core::ops::IndexMut<usize> for H<X, N> { fn index_mut(&mut self, i: usize) -> &mut u8 { &mut self.0[i] } }
impl<X: ?Sized, const N: usize> IntoIterator for H<X, N> { type Item = u8; type IntoIter = ::core::array::IntoIter<u8, N>; fn into_iter(self) -> Self::IntoIter { self.0.into_iter() } }
impl<'z, X: ?Sized, const N: usize> IntoIterator for &'z H<X, N> { type Item = &'z u8; type IntoIter = ::core::slice::Iter<'z, u8>; fn into_iter(self) -> Self::IntoIter { self.0.iter() } }
impl<'z, X: ?Sized, const N: usize> IntoIterator for &'z mut H<X, N> { type Item = &'z mut u8; type IntoIter = ::core::slice::IterMut<'z, u8>; fn into_iter(self) -> Self::IntoIter { self.0.iter_mut() } }
impl<X: ?Sized, const N: usize> ::core::str::FromStr for H<X, N> { type Err = (); fn from_str(_: &str) -> Result<Self, ()> { Ok(H([0; N], PhantomData)) } }
impl<X: ?Sized, const N: usize> ::std::error::Error for H<X, N> {}
impl<X: ?Sized, const N: usize> From<u8> for H<X, N> { fn from(_: u8) -> Self { H([0; N], PhantomData) } }
impl<X: ?Sized, const N: usize> From<H<X, N>> for u16 { fn from(_: H<X, N>) -> u16 { 0 } }
#[derive(Clone, Copy, PartialEq)] pub enum Void {}
macro_rules! void_fmt { ($($t:ident),*) => { $( impl ::core::fmt::$t for Void { fn fmt(&self, _: &mut ::core::fmt::Formatter<'_>) -> ::core::fmt::Result { match *self {} } } )* } }
void_fmt!(Display, Debug, LowerHex);
impl ::std::error::Error for Void {}
impl ::core::ops::Not for Void { type Output = Void; fn not(self) -> Void { self } }
impl ::core::ops::Add for Void { type Output = Void; fn add(self, _: Void) -> Void { self } }

/// an error type only when its argument is Debug: a derive(Error) on `S<T>(We<..T..>)` compiles generically only if the derive
/// itself adds the bound `We<..T..>: Error + 'static`
pub struct We<X>(pub X);
impl<X: ::core::fmt::Debug> ::core::fmt::Debug for We<X> { fn fmt(&self, f: &mut ::core::fmt::Formatter<'_>) -> ::core::fmt::Result { f.write_str("we") } }
impl<X: ::core::fmt::Debug> ::core::fmt::Display for We<X> { fn fmt(&self, f: &mut ::core::fmt::Formatter<'_>) -> ::core::fmt::Result { f.write_str("we") } }
impl<X: ::core::fmt::Debug> ::std::error::Error for We<X> {}

/// a unit type for constants that hostile scopes declare (C15)
#[derive(Clone, Copy, Debug, PartialEq)] pub struct Cn;
'''

GENS = [
    dict(name="none", decl="", where="", lts=[], tys=[], consts=[]),
    dict(name="lt", decl="<'a>", where="", lts=["'a"], tys=[], consts=[]),
    dict(name="lt2", decl="<'a, 'b: 'a>", where="", lts=["'a", "'b"], tys=[], consts=[]),
    dict(name="ty", decl="<T>", where="", lts=[], tys=["T"], consts=[]),
    dict(name="ty_bound", decl="<T: Tr>", where="", lts=[], tys=["T"], consts=[]),
    dict(name="ty_default", decl="<T = u8>", where="", lts=[], tys=["T"], consts=[]),
    dict(name="ty_where", decl="<T>", where=" where T: Tr", lts=[], tys=["T"], consts=[]),
    dict(name="const", decl="<const N: usize>", where="", lts=[], tys=[], consts=["N"]),
    dict(name="const_default", decl="<const N: usize = 3>", where="", lts=[], tys=[], consts=["N"]),
    dict(name="lt_ty_const", decl="<'a, T, const N: usize>", where="", lts=["'a"], tys=["T"], consts=["N"]),
    dict(name="ty2_const_where", decl="<T, U: Tr, const N: usize>", where=" where U: Tr2", lts=[], tys=["T", "U"], consts=["N"]),
    dict(name="full", decl="<'a, T: 'a + Tr = u8, const N: usize = 3>", where="", lts=["'a"], tys=["T"], consts=["N"]),
    dict(name="const_first", decl="<const N: usize, T>", where="", lts=[], tys=["T"], consts=["N"]),
    dict(name="proj_where", decl="<T: Tr>", where=" where T::A: Tr2", lts=[], tys=["T"], consts=[]),
]
QUICK_GENS = ["none", "lt", "ty_bound", "ty_default", "const_default", "full", "ty2_const_where", "proj_where"]


def carrier(g):
    xs = ["&%s ()" % l for l in g["lts"]] + g["tys"]
    x = "(%s)" % "".join(a + ", " for a in xs)
    n = g["consts"][0] if g["consts"] else "1"
    return "H<%s, %s>" % (x, n)


def usage(g):
    """generic arguments to apply to the type"""
    args = g["lts"] + g["tys"] + g["consts"]
    return "<%s>" % ", ".join(args) if args else ""


# ------------------------------------------------------------------------------------------------
# support table.  Template language: {G} generics decl, {W} where clause, {C} carrier type, `@[..]` helper attribute
# (removed in the control twin), {S}/{V}/{F} type / variant / field names.
# struct templates put the where-clause in the right place: tuple structs `struct S<G>(..) W;`, named `struct S<G> W {..}`.

def T(text, kinds="S", gens="all", note=""):
    return dict(text=text, gens=gens, note=note)


ADD = ["Add", "Sub", "BitAnd", "BitOr", "BitXor"]
ADDA = [d + "Assign" for d in ADD]
MUL = ["Mul", "Div", "Rem", "Shr", "Shl"]
MULA = [d + "Assign" for d in MUL]
FMT = {"Display": "display", "Binary": "binary", "Octal": "octal", "LowerHex": "lower_hex", "UpperHex": "upper_hex", "LowerExp": "lower_exp",
       "UpperExp": "upper_exp", "Pointer": "pointer"}
SNAKE = {"Mul": "mul", "Div": "div", "Rem": "rem", "Shr": "shr", "Shl": "shl"}


def table():
    t = {}
    s1 = "struct {S}{G}({C}){W};"
    s2 = "struct {S}{G}({C}, {C}){W};"
    n2 = "struct {S}{G}{W} {{ {F}: {C}, other: {C} }}"
    en = "enum {S}{G}{W} {{ {V}({C}), B {{ {F}: {C}, y: {C} }}, Cc }}"
    en_nounit = "enum {S}{G}{W} {{ {V}({C}), B {{ {F}: {C} }} }}"
    for d in ADD:
        t[d] = [T(s1), T(s2), T(n2), T(en)]
    for d in ADDA:
        t[d] = [T(s1), T(s2), T(n2)]
    for d in MUL:
        a = SNAKE[d]
        t[d] = [T(s1), T(s2), T(n2), T("@[%s(forward)] " % a + s2), T("@[%s(forward)] " % a + n2), T("@[%s(forward)] " % a + en)]
    for d in MULA:
        a = SNAKE[d[:-6]] + "_assign"
        t[d] = [T(s1), T(s2), T(n2), T("@[%s(forward)] " % a + s2)]
    for d in ("Not", "Neg"):
        t[d] = [T(s1), T(s2), T(n2), T(en), T(en_nounit)]
    t["Sum"] = [T("#[derive(derive_more::Add)] " + s2), T("#[derive(derive_more::Add)] " + n2)]
    t["Product"] = [T("#[derive(derive_more::Mul)] @[mul(forward)] " + s2)]
    for d, a in (("AsRef", "as_ref"), ("AsMut", "as_mut")):
        t[d] = [T(s1), T("struct {S}{G}{W} {{ {F}: {C} }}"), T("@[%s(forward)] " % a + s1), T("@[%s([u8])] " % a + s1),
                T("struct {S}{G}{W} {{ @[%s] {F}: {C}, other: u8 }}" % a), T("struct {S}{G}(@[%s(forward)] {C}, u8){W};" % a),
                T("struct {S}{G}{W} {{ {F}: {C}, @[%s(skip)] other: u8 }}" % a), T("struct {S}{G}(@[%s([u8], {C})] {C}, @[%s] u16){W};" % (a, a))]
    t["Constructor"] = [T("struct {S}{G}(PhantomData<{C}>){W};"), T(s1), T(s2), T(n2), T("struct {S};", gens=["none"]), T("struct {S}();", gens=["none"]), T("struct {S} {{}}", gens=["none"])]
    t["Debug"] = [T(s1), T(s2), T(n2), T(en), T("struct {S};", gens=["none"]), T("enum {S} {{}}", gens=["none"]),
                  T("struct {S}{G}{W} {{ @[debug(skip)] {F}: {C}, other: {C} }}"), T("struct {S}{G}(@[debug(\"{{}}\", _1)] {C}, u8){W};"),
                  T("@[debug(\"{{_0}}\")] " + s2), T("enum {S}{G}{W} {{ @[debug(\"{{_0:?}}!\")] {V}({C}), B {{ @[debug(ignore)] {F}: {C} }}, Cc }}"),
                  T("@[debug(bound({C}: Clone))] " + s1), T("@[debug(\"x{{_0:?}}\",)] " + s1, note="trailing comma after the literal"),
                  T("struct {S}{G}(@[debug(\"f\",)] {C}, u8){W};", note="trailing comma after a field-level literal")]
    for d, a in FMT.items():
        lst = [T(s1), T("struct {S}{G}{W} {{ {F}: {C} }}"), T("@[%s(\"{{_0}} {{_1:?}}\")] " % a + s2), T("@[%s(\"{{%s}}-{{}}\", other)] " % (a, "{Fl}") + n2),
               T("enum {S}{G}{W} {{ {V}({C}), @[%s(\"{{%s}} {{y}}\")] B {{ {F}: {C}, y: {C} }}, @[%s(\"c\")] Cc }}" % (a, "{Fl}", a)),
               T("@[%s(\"<{{_variant}}>\")] enum {S}{G}{W} {{ {V}({C}), @[%s(\"c\")] Cc }}" % (a, a)),
               T("@[%s(\"dflt\")] enum {S}{G}{W} {{ {V}({C}), @[%s(\"c\")] Cc }}" % (a, a)),
               # enum-level formats that name a field of every variant (their bounds come from a separate code path)
               T("@[%s(\"s {{_0}}\")] enum {S}{G}{W} {{ {V}({C}), B({C}) }}" % a, note="shared default naming a field"),
               T("@[%s(\"{{_variant}}: {{_0}}\")] enum {S}{G}{W} {{ @[%s(\"v\")] {V}({C}), @[%s(\"w\")] B({C}) }}" % (a, a, a), note="wrapping shared format naming a field"),
               T("@[%s(\"{{_variant}} / {{%s}}\")] enum {S}{G}{W} {{ @[%s(\"v\")] {V} {{ {F}: {C} }} }}" % (a, "{Fl}", a), note="wrapping shared format naming a named field"),
               T("@[%s(\"{{_0}}\")] @[%s(bound({C}: Clone))] " % (a, a) + s1),
               T("@[%s(\"u\")] union {S}{G}{W} {{ {F}: u8, other: PhantomData<{C}> }}" % a),
               T("@[%s(\"unit\")] struct {S};" % a, gens=["none"]),
               # trailing commas: after the arguments, and after a literal that has none
               T("@[%s(\"x{{_0}}\",)] " % a + s1, note="trailing comma after the literal"),
               T("@[%s(\"{{_0}} {{}}\", _1,)] " % a + s2, note="trailing comma after the arguments"),
               T("enum {S}{G}{W} {{ @[%s(\"a\",)] {V}({C}), @[%s(\"c{{}}\", 1,)] Cc }}" % (a, a), note="trailing commas in variant attributes")]
        if d == "Display":
            lst += [T("struct {S};", gens=["none"]), T("enum {S} {{ {V}, Bb }}", gens=["none"]),
                    T("@[display(rename_all = \"snake_case\")] enum {S} {{ {V}, @[display(rename_all = \"UPPERCASE\")] Bb }}", gens=["none"]),
                    T("enum {S} {{}}", gens=["none"])]
        t[d] = lst
    for d, a in (("Deref", "deref"), ("DerefMut", "deref_mut")):
        pre = "#[derive(derive_more::Deref)] " if d == "DerefMut" else ""
        def both(s):
            return s.replace("@[%s" % a, "@[deref") + "" if d == "Deref" else s
        if d == "Deref":
            t[d] = [T(s1), T("struct {S}{G}{W} {{ {F}: {C} }}"), T("@[deref(forward)] " + s1), T("struct {S}{G}(@[deref] {C}, u8){W};"),
                    T("struct {S}{G}{W} {{ {F}: {C}, @[deref(ignore)] other: u8 }}"), T("struct {S}{G}(@[deref(forward)] {C}, u8){W};")]
        else:
            t[d] = [T(pre + s1), T(pre + "struct {S}{G}{W} {{ {F}: {C} }}"), T(pre + "@[deref(forward)] @[deref_mut(forward)] " + s1),
                    T(pre + "struct {S}{G}(@[deref] @[deref_mut] {C}, u8){W};"),
                    T(pre + "struct {S}{G}{W} {{ {F}: {C}, @[deref(ignore)] @[deref_mut(ignore)] other: u8 }}")]
    dd = "#[derive(Debug, derive_more::Display)] "
    st = ["none", "const", "const_default"]   # an error source must be 'static
    t["Error"] = [T(dd + s1, gens=st), T(dd + "struct {S}{G}{W} {{ source: {C} }}", gens=st), T(dd + "#[display(\"e\")] struct {S}{G}{W} {{ @[error(source)] {F}: {C}, other: u8 }}", gens=st),
                  T(dd + "#[display(\"e\")] struct {S}{G}(@[error(not(source))] {C}){W};"), T(dd + "#[display(\"e\")] struct {S}{G}(@[error(ignore)] u8, @[error(source)] {C}){W};", gens=st),
                  T(dd + "#[display(\"e\")] enum {S}{G}{W} {{ {V}({C}), B {{ source: {C}, {F}: u8 }}, @[error(ignore)] Ig({C}), Cc }}", gens=st),
                  T(dd + "#[display(\"e\")] enum {S}{G}{W} {{ {V}({C}), B {{ source: {C}, {F}: u8 }}, @[error(ignore)] Ig({C}) }}", gens=st, note="every considered variant has a source"),
                  T(dd + "#[display(\"e\")] enum {S}{G}{W} {{ @[error(ignore)] Ig {{ source: {C} }}, {V}({C}) }}", gens=st, note="ignored variant first"),
                  T(dd + "#[display(\"e\")] enum {S}{G}{W} {{ {V}({C}) }}", gens=st, note="single sourced variant"),
                  T(dd + "#[display(\"e\")] struct {S}<T> {{ source: T, {F}: u8 }}", gens=["none"]),
                  T(dd + "#[display(\"e\")] struct {S}<T: 'static> {{ source: &'static T }}", gens=["none"], note="type parameter behind a reference"),
                  T(dd + "#[display(\"e\")] struct {S}<T: Tr> where <T as Tr>::A: ::core::fmt::Debug {{ source: <T as Tr>::A }}", gens=["none"], note="type parameter in a qualified self type"),
                  T(dd + "#[display(\"e\")] struct {S}<T>(Box<T>);", gens=["none"], note="type parameter inside a generic argument"),
                  T(dd + "#[display(\"e\")] struct {S}<T>(::std::boxed::Box<T>);", gens=["none"], note="type parameter in the last segment of a multi-segment path"),
                  T(dd + "#[display(\"e\")] struct {S}<T: 'static>(H<T, 1>);", gens=["none"], note="type parameter among several generic arguments"),
                  T(dd + "#[display(\"e\")] struct {S}<T>(We<T>);", gens=["none"], note="conditional error wrapper (control)"),
                  T(dd + "#[display(\"e\")] struct {S}<T>(We<[T; 1]>);", gens=["none"], note="type parameter inside an array type"),
                  T(dd + "#[display(\"e\")] struct {S}<T>(We<(T, u8)>);", gens=["none"], note="type parameter inside a tuple type"),
                  T(dd + "#[display(\"e\")] enum {S}<T: 'static> {{ {V} {{ source: We<&'static [T]> }}, Cc }}", gens=["none"], note="type parameter inside a slice reference"),
                  T(dd + "#[display(\"e\")] struct {S}<T: 'static>(We<fn(T) -> T>);", gens=["none"], note="type parameter inside a fn pointer type"),
                  T(dd + "#[display(\"e\")] struct {S}<T: 'static>(We<*const T>);", gens=["none"], note="type parameter behind a raw pointer"),
                  T(dd + "#[display(\"e\")] struct {S}<T: 'static>(H<(), 1>, ::core::marker::PhantomData<T>);", gens=["none"], note="parameter only in a non-source field"),
                  T(dd + "#[display(\"e\")] struct {S}<T: Tr> where T::A: ::core::fmt::Debug {{ source: T::A }}", gens=["none"], note="associated type of a parameter"),
                  T(dd + "#[display(\"e\")] enum {S}<T, U> {{ {V}(T), B {{ source: U }}, Cc }}", gens=["none"]),
                  T(dd + "#[display(\"e\")] struct {S}{G}{W} {{ {F}: {C} }}"),
                  T(dd + "#[display(\"e\")] struct {S};", gens=["none"])]
    t["From"] = [T(s1), T(s2), T(n2), T("@[from(forward)] " + s1), T("@[from(u8)] " + s1), T("@[from((u8, u8), ({C}, {C}))] " + s2),
                 T("enum {S}{G}{W} {{ {V}({C}), B {{ {F}: {C}, y: u8 }}, Cc }}"), T("enum {S}{G}{W} {{ @[from] {V}({C}), B({C}) }}"),
                 T("enum {S}{G}{W} {{ @[from(skip)] {V}({C}), @[from(forward)] B {{ {F}: {C} }}, @[from((u8, PhantomData<u16>))] D({C}, PhantomData<u16>) }}")]
    t["FromStr"] = [T(s1), T("struct {S}{G}{W} {{ {F}: {C} }}"), T("enum {S} {{ {V}, Bb }}", gens=["none"]),
                    T("enum {S}<const N: usize> {{ {V}, Bb }}", gens=["none"], note="const-generic unit enum")]
    t["Index"] = [T(s1), T("struct {S}{G}{W} {{ {F}: {C} }}"), T("struct {S}{G}(@[index] {C}, u8){W};"), T("struct {S}{G}{W} {{ {F}: {C}, @[index(ignore)] other: u8 }}")]
    pi = "#[derive(derive_more::Index)] "
    t["IndexMut"] = [T(pi + s1), T(pi + "struct {S}{G}(@[index] @[index_mut] {C}, u8){W};")]
    t["Into"] = [T(s1), T(s2), T(n2), T("@[into(owned, ref, ref_mut)] " + s2), T("@[into(u16)] " + s1), T("@[into(ref)] struct {S}{G}{W} {{ {F}: {C}, @[into(skip)] other: u8 }}"),
                 T("struct {S}{G}{W} {{ @[into] {F}: {C}, other: u8 }}"), T("@[into] struct {S}{G}(@[into(owned(u16), ref)] {C}, u8){W};")]
    t["IntoIterator"] = [T(s1), T("struct {S}{G}{W} {{ {F}: {C} }}"), T("@[into_iterator(owned, ref, ref_mut)] " + s1),
                         T("struct {S}{G}(@[into_iterator(ref)] {C}, u8){W};"), T("struct {S}{G}{W} {{ {F}: {C}, @[into_iterator(ignore)] other: u8 }}")]
    et = "enum {S}{G}{W} {{ {V}({C}), B({C}, u8), Cc }}"
    t["IsVariant"] = [T(en), T(et), T("enum {S}{G}{W} {{ {V}({C}), @[is_variant(ignore)] B, Cc }}")]
    t["Unwrap"] = [T(et), T("@[unwrap(ref, ref_mut)] " + et), T("enum {S}{G}{W} {{ {V}({C}), @[unwrap(ignore)] B {{ x: u8 }}, Cc }}")]
    t["TryUnwrap"] = [T(et), T("@[try_unwrap(ref, ref_mut)] " + et), T("enum {S}{G}{W} {{ {V}({C}), @[try_unwrap(ignore)] B {{ x: u8 }}, Cc }}")]
    t["TryFrom"] = [T("@[try_from(repr)] enum {S}{G}{W} {{ {V}, B({C}), Cc }}"), T("@[try_from(repr)] #[repr(u8)] enum {S}{G}{W} {{ {V} = 1, B({C}) = 5, Cc }}"),
                    T("@[try_from(repr)] #[repr(i16)] enum {S} {{ {V} = -1, Bb }}", gens=["none"])]
    # type parameters used directly as field types (bounds must be inferred / added by the derive itself)
    N = ["none"]
    for d in ADD:
        t[d] += [T("struct {S}<T>(T, T);", gens=N), T("struct {S}<T, U> {{ {F}: T, other: U }}", gens=N), T("enum {S}<T> {{ {V}(T), B {{ {F}: T }}, Cc }}", gens=N)]
    for d in ADDA:
        t[d] += [T("struct {S}<T>(T, T);", gens=N), T("struct {S}<T, U> {{ {F}: T, other: U }}", gens=N)]
    for d in MUL:
        t[d] += [T("struct {S}<T>(T);", gens=N), T("struct {S}<T, U>(T, U);", gens=N), T("struct {S}<T> {{ {F}: T, other: T }}", gens=N),
                 T("@[%s(forward)] struct {S}<T>(T, T);" % SNAKE[d], gens=N)]
    for d in MULA:
        t[d] += [T("struct {S}<T>(T);", gens=N), T("struct {S}<T, U>(T, U);", gens=N)]
    for d in ("Not", "Neg"):
        t[d] += [T("struct {S}<T>(T, T);", gens=N), T("enum {S}<T> {{ {V}(T), B {{ {F}: T }} }}", gens=N), T("enum {S}<T> {{ {V}(T), Cc }}", gens=N)]
    t["Sum"] += [T("#[derive(derive_more::Add)] struct {S}<T>(T, T);", gens=N), T("#[derive(derive_more::Add)] struct {S}<I>(I, I);", gens=N, note="a type parameter called I")]
    t["Product"] += [T("#[derive(derive_more::Mul)] @[mul(forward)] struct {S}<T>(T, T);", gens=N),
                     T("#[derive(derive_more::Mul)] @[mul(forward)] struct {S}<I>(I, I);", gens=N, note="a type parameter called I")]
    t["Constructor"] += [T("struct {S}<'a, T: ?Sized, const N: usize>(&'a T, [u8; N]);", gens=N), T("struct {S}<T> {{ {F}: T, other: Vec<T> }}", gens=N)]
    t["From"] += [T("struct {S}<T>(T);", gens=N), T("struct {S}<T, U>(T, U);", gens=N), T("enum {S}<T> {{ {V}(T), Cc }}", gens=N)]
    # (Into with a bare type parameter as the target violates the orphan rule; Vec<T> etc. are fine)
    t["Into"] += [T("struct {S}<T>(Vec<T>);", gens=N), T("@[into(owned, ref, ref_mut)] struct {S}<T, U>(Vec<T>, Option<U>);", gens=N)]
    t["Deref"] += [T("struct {S}<T>(T);", gens=N), T("@[deref(forward)] struct {S}<T>(Box<T>);", gens=N), T("struct {S}<'a, T: ?Sized>(&'a T);", gens=N)]
    t["DerefMut"] += [T("#[derive(derive_more::Deref)] struct {S}<T>(T);", gens=N), T("#[derive(derive_more::Deref)] @[deref(forward)] @[deref_mut(forward)] struct {S}<T>(Box<T>);", gens=N)]
    for d, a in (("AsRef", "as_ref"), ("AsMut", "as_mut")):
        t[d] += [T("struct {S}<T>(T);", gens=N), T("@[%s(T)] struct {S}<T>(T);" % a, gens=N), T("@[%s(forward)] struct {S}<T>(T);" % a, gens=N),
                 T("@[%s([T])] struct {S}<T>(Vec<T>);" % a, gens=N),
                 # the field's type is an associated type of a parameter, in both spellings: forwarded with a where-bound
                 T("@[%s(u8)] struct {S}<T: Tr>(<T as Tr>::A);" % a, gens=N, note="qualified associated type"),
                 T("@[%s(u8)] struct {S}<T: Tr>(T::A);" % a, gens=N, note="shorthand associated type")]
    t["Index"] += [T("struct {S}<T>(Vec<T>);", gens=N), T("struct {S}<K: ::core::hash::Hash + Eq, V> {{ {F}: ::std::collections::HashMap<K, V>, @[index(ignore)] other: u8 }}", gens=N)]
    t["IndexMut"] += [T("#[derive(derive_more::Index)] struct {S}<T>(Vec<T>);", gens=N)]
    t["IntoIterator"] += [T("@[into_iterator(owned, ref, ref_mut)] struct {S}<T>(Vec<T>);", gens=N), T("struct {S}<T: IntoIterator>(T);", gens=N)]
    t["FromStr"] += [T("struct {S}<T>(T);", gens=N), T("struct {S}<T> {{ {F}: T }}", gens=N)]
    for d, a in FMT.items():
        t[d] += [T("struct {S}<T>(T);", gens=N), T("@[%s(\"{{_0}} {{_1:?}}\")] struct {S}<T, U>(T, U);" % a, gens=N),
                 T("enum {S}<'a, T, U: ?Sized> {{ {V}(T), @[%s(\"{{_0}}\")] B(&'a U), @[%s(\"c\")] Cc }}" % (a, a), gens=N)]
    t["Debug"] += [T("struct {S}<T>(T);", gens=N), T("struct {S}<'a, T, U: ?Sized> {{ {F}: Vec<T>, @[debug(skip)] other: &'a U }}", gens=N),
                   T("enum {S}<T, U> {{ {V}(T), B {{ {F}: U }}, Cc }}", gens=N)]
    for d in ("IsVariant", "Unwrap", "TryUnwrap"):
        t[d] += [T("enum {S}<T, U> {{ {V}(T), B(T, U), Cc }}", gens=N), T("enum {S}<'a, T: ?Sized> {{ {V}(&'a T), Cc }}", gens=N)]
    t["TryFrom"] += [T("@[try_from(repr)] enum {S}<T> {{ {V}, B(T), Cc }}", gens=N)]
    t["TryInto"] = [T("enum {S}{G}{W} {{ {V}({C}), B {{ {F}: u8, y: u16 }}, Cc }}"), T("@[try_into(owned, ref, ref_mut)] enum {S}{G}{W} {{ {V}({C}), B(u8, @[try_into(ignore)] u16), @[try_into(ignore)] Cc }}")]
    return t


DECOS = {
    "none": None,
    "deprecated_field": ("FIELD", "#[deprecated] "),
    "deprecated_variant": ("VARIANT", "#[deprecated] "),
    "uninhabited_field": ("UNINHABITED", None),
}


def instantiate(tmpl, g, names, deco):
    """Returns (item for the real derive, control twin) or None if the combination does not apply."""
    text = tmpl["text"]
    if tmpl["gens"] != "all" and g["name"] not in tmpl["gens"]:
        return None
    C = carrier(g)
    if deco == "deprecated_field":
        # first field of the struct body (not an occurrence of the carrier inside attribute arguments)
        if "enum" in text or "union" in text or "struct {S}" not in text:
            return None
        k = text.index("struct {S}")
        head, body = text[:k], text[k:]
        m = re.search(r"(\(|\{\{ )((?:@\[(?:[^\[\]]|\[[^\]]*\])*\] )*)((?:\{F\}|source): )?\{C\}", body)
        if not m:
            return None
        pos = m.start(2) if m.group(2) else (m.start(3) if m.group(3) else m.end(1))
        text = head + body[:pos] + "#[deprecated] " + body[pos:]
    elif deco == "deprecated_variant":
        if "enum {S}" not in text or "{V}" not in text:
            return None
        text = re.sub(r"((@\[[^\]]*\] )*)\{V\}", r"#[deprecated] \1{V}", text, count=1)
    elif deco == "uninhabited_field":
        if g["name"] != "none" or "{C}" not in text or "union" in text or re.search(r"u8\)|u16|\[u8\]|forward|\{C\}\)\)", text):
            return None
        text = text.replace("{C}", "Void", 1) if False else text
    S, V, F = names
    out = text.replace("{G}", g["decl"]).replace("{W}", g["where"]).replace("{C}", C).replace("{S}", S).replace("{V}", V).replace("{Fl}", F[2:] if F.startswith("r#") else F).replace("{F}", F)
    out = out.replace("{{", "{").replace("}}", "}")
    real = out.replace("@[", "#[")
    twin = re.sub(r"@\[(?:[^\[\]]|\[[^\]]*\])*\] ?", "", out)
    twin = re.sub(r"#\[derive\(derive_more::\w+\)\] ?", "", twin)
    twin = re.sub(r"#\[derive\(Debug, derive_more::Display\)\] ?", "#[derive(Debug)] ", twin)
    twin = re.sub(r"#\[display\([^\]]*\)\] ?", "", twin)
    return real, twin


def header_invariants(derive, item, out, g):
    """Structural invariants of generated impl headers (seam A). Returns list of problems."""
    probs = []
    m = re.search(r"(?:struct|enum|union) (\S+?)\s*(?:<|\(|\{|;| where)", item)
    name = m.group(1) if m else None
    for hm in re.finditer(r"\bimpl\b(.*?)\{", out):
        head = hm.group(1)
        if " for " in head:
            tr, ty = head.split(" for ", 1)
        else:
            tr, ty = "", head
        ty = ty.split(" where ")[0]
        # the type's own arguments are applied to the type itself ...
        order = re.findall(r"(?:^<|, )(?:const )?('?\w+)", g["decl"])   # parameters in declaration order
        own = " , ".join(order)
        if name and re.search(r"\b%s\b" % re.escape(name), ty):
            if own and not re.search(r"\b%s\s*<\s*%s\s*>" % (re.escape(name), re.escape(own)), ty):
                probs.append("self type `%s` does not carry the type's own arguments <%s>" % (ty.strip(), own))
        # ... and to nothing else: no primitive type with generic arguments
        if re.search(r"\b(?:isize|usize|u8|u16|u32|u64|u128|i8|i16|i32|i64|i128|str|bool|char)\s*<", head):
            probs.append("generic arguments applied to a primitive type in `%s`" % head.strip()[:120])
    return probs


def build(thorough):
    """The program space: (support table, generics used, compile-engine cases, per-case (cid, generics), seam-A requests)."""
    tab = table()
    if len(tab) != 50:
        raise Exception("support table covers %d derives, expected 50" % len(tab))
    gens = [g for g in GENS if thorough or g["name"] in QUICK_GENS]
    plain = ("Sx", "Aa", "fx")
    raw = ("r#type", "r#fn", "r#loop")
    # names that coincide with the associated items of the derived traits (`Self::Output`, `Self::Target`, `Self::Error`, `Self::Err`,
    # `Self::Item`, `Self::IntoIter`): a variant of that name makes `Self::X` ambiguous inside the generated impl
    assoc = (("Item", "Output", "target"), ("Target", "Error", "output"), ("IntoIter", "Err", "item"), ("Output", "Target", "error"), ("Error", "Item", "into_iter"),
             # ... and with the helper items the expansions import into their function bodies
             ("AsDynError", "ExtractRef", "conv"), ("ExtractRef", "AsDynError", "value"))
    cases, metas, reqs = [], [], []
    for derive, tmpls in tab.items():
        for ti, tmpl in enumerate(tmpls):
            for g in gens:
                for names in ((plain, raw) + assoc if g["name"] == "none" else ((plain, raw) if g["name"] == "full" else (plain,))):
                    for deco in DECOS:
                        if deco != "none" and g["name"] not in ("none", "lt_ty_const", "full"):
                            continue
                        if deco != "none" and names is not plain:
                            continue
                        inst = instantiate(tmpl, g, names, deco)
                        if inst is None:
                            continue
                        real, twin = inst
                        if deco == "uninhabited_field":
                            if "H<(), 1>" not in real:
                                continue
                            real = real.replace("H<(), 1>", "Void", 1)
                            twin = twin.replace("H<(), 1>", "Void", 1)
                            if derive not in ("Display", "Debug", "LowerHex", "Not", "Add", "Error", "From", "Into", "Constructor", "IsVariant", "Unwrap", "TryUnwrap", "TryInto", "Deref", "AsRef"):
                                continue
                            if derive in ("Add", "Not") and "enum" in real:
                                continue
                        cid = "c%d" % len(cases)
                        dline = "#[derive(derive_more::%s)] " % derive
                        mod = "#[allow(unused_imports)] use super::*;\n%s%s" % (dline, real)
                        cases.append(Case(cid, mod, has_run=False, meta=dict(derive=derive, tmpl=ti, gen=g["name"], raw=names is not plain, deco=deco, src=dline + real, twin=twin)))
                        # seam A gets only the item the derive is applied to (last item of the text)
                        last = real[real.rindex("#[derive(derive_more::"):] if "#[derive(derive_more::" in real else real
                        item_only = re.sub(r"^#\[derive\(derive_more::\w+\)\] ", "", last) if last is not real else real
                        reqs.append({"derive": derive, "item": re.sub(r"#\[derive\([^\]]*\)\] ?", "", real)})
                        metas.append((cid, g))
    return tab, gens, cases, metas, reqs


EMPTY_SHAPES = ["struct S;", "struct S();", "struct S {}", "enum S {}", "enum S { A() }", "enum S { A {} }", "enum S { A(), B {}, Cc }", "enum S { A(H<(), 1>), B() }",
                "enum S { A { x: H<(), 1> }, B {} }", "enum S { A(), B() }", "enum S { Cc, A {} }", "union S { a: u8 }"]
# plain shapes in every syntactic variation, field types that implement every trait any derive needs (distinct per position, so
# that no two generated impls can overlap): the support table above lists what the documentation promises per derive; here nothing
# is promised - whatever a derive ACCEPTS must compile
_C1, _C2 = "H<(), 1>", "H<(), 2>"
PLAIN_SHAPES = [s.replace("C1", _C1).replace("C2", _C2) for s in [
    "struct S(C1);", "struct S(C1,);", "struct S { a: C1 }", "struct S { a: C1, }", "struct S(pub C1);", "struct S { pub(crate) a: C1 }", "pub(crate) struct S(C1);",
    "struct S(C1, C2);", "struct S { a: C1, b: C2 }", "struct S(C1, C2,);",
    "enum S { A }", "enum S { A, }", "enum S { A, B }", "enum S { A = 1, B }", "enum S { A = (1 << 3), B, Cc = (200) }", "#[repr(u8)] enum S { A = (1 << 3), B = (2 + 1) }", "#[repr(u8)] enum S { A = 1, B = 3 }", "#[repr(i8)] enum S { A = -1, B }",
    "enum S { A(C1) }", "enum S { A { a: C1 } }", "enum S { A(C1), B(C2) }", "enum S { A(C1), B { a: C2 } }", "enum S { A(C1), B }", "enum S { B, A(C1) }",
    "enum S { A(C1, C2), B }", "enum S { A { a: C1, b: C2 } }", "enum S { A(C1,), }", "enum S { A { a: C1, }, }", "#[repr(u8)] enum S { A(C1) = 3, B = 5 }",
    "struct S<const N: usize>(H<(), N>);", "struct S<T>(H<T, 1>);", "struct S<T = u8>(H<T, 1>);", "struct S<T>(H<T, 1>) where T: Clone;",
    "struct S<T> where T: Clone { a: H<T, 1> }", "struct S<T> where T: Clone, { a: H<T, 1> }", "struct S<'a, T: 'a>(H<&'a T, 1>);", "struct S<'a, 'b: 'a, T: 'a + 'b>(H<&'a &'b T, 1>);",
    "enum S<T> { A(H<T, 1>), B }", "enum S<'a, T: 'a, const N: usize> { A(H<&'a T, N>) }", "enum S<T, U> { A(H<T, 1>), B { b: H<U, 2> } }",
    "struct S<T>(H<T, 1>, H<T, 2>);", "struct S<T, U> { a: H<T, 1>, b: H<U, 2> }",
    # names outside the usual casing conventions, the lint allowed on the item by the user (as for field names kept from a wire format)
    "#[allow(non_snake_case)] struct S { fooBar: C1 }", "#[allow(non_snake_case)] struct S { fooBar: C1, BazQux: C2 }", "#[allow(non_snake_case)] enum S { A { fooBar: C1 }, B }",
    "#[allow(non_snake_case)] enum S { A { fooBar: C1, BazQux: C2 } }",
    # (generic parameters outside the conventions: every impl re-declares them - known finding c01-generic-parameter-naming-lints)
    "#[allow(non_camel_case_types, non_upper_case_globals)] struct S<t, const n: usize>(H<t, n>);", "#[allow(non_camel_case_types)] enum S<r#type> { A(H<r#type, 1>), B }",
    # the deriving type itself deprecated: the expansion names it in every impl header and body
    "#[deprecated] struct S(C1);", "#[deprecated] struct S { a: C1 }", "#[deprecated] struct S(C1, C2);", "#[deprecated] enum S { A(C1), B }", "#[deprecated] enum S { A = 1, B }",
    "#[deprecated] enum S { A(C1), B(C2) }", "#[deprecated] struct S<T>(H<T, 1>);", "#[deprecated] enum S { A { a: C1, b: C2 } }",
]]
# field types of every syntactic kind, for the derives that ask nothing of a field's type (conversions, constructors, accessors)
EXOTIC_TYPES = ["fn(u8) -> u8", "*const u8", "[u8; 4]", "(u8, i8)", "&'static str", "Box<dyn Fn(u8) -> u8 + Send + 'static>", "&'static (dyn ::core::any::Any + Send)",
                "Option<&'static u8>", "::core::marker::PhantomData<u8>", "&'static [u8]", "for<'x> fn(&'x u8) -> &'x u8", "Box<dyn for<'x> Fn(&'x u8) -> &'x u8>",
                "<u8 as Tr>::A", "Vec<Vec<u8>>", "Option<Option<Box<[u8]>>>", "(u8,)", "[[u8; 2]; 2]", "*mut [u8]", "unsafe extern \"C\" fn(u8)", "::std::string::String",
                # constant expressions of every kind as array lengths and const arguments (all valid in a type definition)
                "[i8; if true { 1 } else { 2 }]", "[u16; { let x = 1; x }]", "[i16; const { 1 }]", "[u32; match 2usize { 2 => 1, _ => 3 }]", "[i32; [1, 2][0]]",
                "H<(), { if true { 5 } else { 2 } }>", "[u64; loop { break 1 }]",
                # the deriving type named `Self` inside its own fields
                "Option<Box<Self>>", "Vec<Self>", "fn(&Self) -> u8", "*const Self",
                # a trait object whose lifetime is left implicit, behind a raw pointer (was the known finding c01-implicit-object-lifetime-behind-pointer)
                "*const dyn ::core::fmt::Debug", "(u8, *mut dyn ::core::fmt::Debug)"]
AGNOSTIC = ["Constructor", "From", "Into", "IsVariant", "Unwrap", "TryUnwrap", "TryInto", "TryFrom"]
EXOTIC_SHAPES = (["struct S(%s);" % t for t in EXOTIC_TYPES] + ["struct S { a: %s, b: u8 }" % t for t in EXOTIC_TYPES] +
                 ["enum S { A(%s), B { x: %s }, Cc }" % (t, EXOTIC_TYPES[(i + 1) % len(EXOTIC_TYPES)]) for i, t in enumerate(EXOTIC_TYPES)] +
                 ["struct S<T>(%s, T);" % t for t in EXOTIC_TYPES[:8]] + ["struct S<'a, T: ?Sized>(&'a T, %s);" % t for t in EXOTIC_TYPES[8:14]])
PREREQ = {"Error": "#[derive(Debug, derive_more::Display)] ", "Sum": "#[derive(derive_more::Add)] ", "Product": "#[derive(derive_more::Mul)] #[mul(forward)] ",
          "DerefMut": "#[derive(derive_more::Deref)] ", "IndexMut": "#[derive(derive_more::Index)] "}
PREREQ_REQ = {"Error": ("Display", ""), "Sum": ("Add", ""), "Product": ("Mul", "#[mul(forward)] "), "DerefMut": ("Deref", ""), "IndexMut": ("Index", "")}


def container_attrs(d):
    """container-level helper attributes of derive `d` (documented modes), to be combined with every shape"""
    if d in MUL:
        return ["#[%s(forward)]" % SNAKE[d]]
    if d in MULA:
        return ["#[%s_assign(forward)]" % SNAKE[d[:-6]]]
    if d in ("AsRef", "AsMut"):
        a = "as_ref" if d == "AsRef" else "as_mut"
        return ["#[%s(forward)]" % a]
    if d == "From":
        return ["#[from(forward)]"]     # (type lists must fit the fields: they are in the support table, per shape)
    if d == "Into":
        return ["#[into(owned, ref, ref_mut)]", "#[into(ref)]"]
    if d in ("Deref", "DerefMut"):
        return ["#[deref(forward)] #[deref_mut(forward)]" if d == "DerefMut" else "#[deref(forward)]"]
    if d == "IntoIterator":
        return ["#[into_iterator(owned, ref, ref_mut)]", "#[into_iterator(ref)]"]
    if d in ("Unwrap", "TryUnwrap"):
        a = "unwrap" if d == "Unwrap" else "try_unwrap"
        return ["#[%s(ref, ref_mut)]" % a, "#[%s(owned, ref)]" % a]
    if d == "TryInto":
        return ["#[try_into(owned, ref, ref_mut)]", "#[try_into(ref)]"]
    if d == "TryFrom":
        return ["#[try_from(repr)]"]
    if d in FMT:
        return ['#[%s("x")]' % FMT[d], '#[%s("{}", 1u8)]' % FMT[d], '#[%s("<{_variant}>")]' % FMT[d]]
    if d == "Debug":
        return ['#[debug("x")]', '#[debug("{}", 1u8)]']
    return []


def member_attrs(d):
    """(level, attribute) pairs: documented helper attributes of derive `d` for variants / fields"""
    two = {"AsRef": "as_ref", "AsMut": "as_mut", "Index": "index", "IntoIterator": "into_iterator", "Deref": "deref"}
    if d == "From":
        return [("variant", "#[from]"), ("variant", "#[from(skip)]"), ("variant", "#[from(ignore)]"), ("variant", "#[from(forward)]")]
    if d == "Into":
        return [("field", "#[into]"), ("field", "#[into(skip)]"), ("field", "#[into(ref)]")]
    if d in ("AsRef", "AsMut"):
        a = two.get(d, "as_mut")
        return [("field", "#[%s]" % a), ("field", "#[%s(skip)]" % a), ("field", "#[%s(forward)]" % a)]
    if d == "Deref":
        return [("field", "#[deref]"), ("field", "#[deref(ignore)]"), ("field", "#[deref(forward)]")]
    if d == "DerefMut":
        return [("field", "#[deref] #[deref_mut]"), ("field", "#[deref(ignore)] #[deref_mut(ignore)]"), ("field", "#[deref(forward)] #[deref_mut(forward)]")]
    if d == "Index":
        return [("field", "#[index]"), ("field", "#[index(ignore)]")]
    if d == "IndexMut":
        return [("field", "#[index] #[index_mut]"), ("field", "#[index(ignore)] #[index_mut(ignore)]")]
    if d == "IntoIterator":
        return [("field", "#[into_iterator]"), ("field", "#[into_iterator(ignore)]"), ("field", "#[into_iterator(ref)]")]
    if d == "IsVariant":
        return [("variant", "#[is_variant(ignore)]"), ("variant", "#[is_variant]")]
    if d in ("Unwrap", "TryUnwrap"):
        a = "unwrap" if d == "Unwrap" else "try_unwrap"
        return [("variant", "#[%s(ignore)]" % a), ("variant", "#[%s(ref)]" % a), ("variant", "#[%s(owned, ref_mut)]" % a)]
    if d == "TryInto":
        return [("variant", "#[try_into(ignore)]"), ("field", "#[try_into(ignore)]"), ("variant", "#[try_into(owned, ref)]")]
    if d == "Debug":
        return [("field", "#[debug(skip)]"), ("field", '#[debug("f")]'), ("variant", '#[debug("v")]'), ("field", '#[debug("{}", 1u8)]')]
    if d in FMT:
        return [("variant", '#[%s("v")]' % FMT[d]), ("variant", '#[%s("{}", 1u8)]' % FMT[d])]
    if d == "Error":
        return [("field", "#[error(source)]"), ("field", "#[error(not(source))]"), ("variant", "#[error(ignore)]"), ("field", "#[error(not(backtrace))]")]
    return []


def part_accepted_compiles(chk, thorough):
    """Degenerate shapes (no fields at all, written `;`, `()` or `{}`; enums with no or only empty variants; unions) are where the
    documentation says least.  Whatever a derive does with them, it must be one of two things: a diagnostic, or code that
    compiles - every (derive, shape) the expander ACCEPTS in-process is compiled."""
    derives = sorted(table())
    pairs = [(d, it) for d in derives for it in EMPTY_SHAPES + PLAIN_SHAPES]
    pairs += [(d, "%s %s" % (a, it)) for d in derives for a in container_attrs(d) for it in EMPTY_SHAPES + PLAIN_SHAPES if "_variant" not in a or "enum " in it]
    # the type-agnostic derives on field types of every syntactic kind (with their reference-kind attributes where they have them)
    for d in AGNOSTIC:
        for it in EXOTIC_SHAPES:
            pairs.append((d, ("#[try_from(repr)] " if d == "TryFrom" else "") + it))
            for a in container_attrs(d):
                if d != "TryFrom" and "forward" not in a:      # (`forward` asks `FieldTy: From<T>` of the type: not type-agnostic)
                    pairs.append((d, "%s %s" % (a, it)))
    # `Self` in the field of the derives that ask a trait of the field's type
    for d, pre in (("IntoIterator", "#[into_iterator(owned, ref, ref_mut)] "), ("IntoIterator", ""), ("Index", ""), ("IndexMut", ""), ("Deref", ""), ("DerefMut", ""), ("Deref", "#[deref(forward)] "),
                   ("AsRef", ""), ("AsMut", ""), ("AsRef", "#[as_ref(forward)] "), ("From", "#[from(forward)] "), ("Into", "#[into(owned, ref, ref_mut)] ")):
        for it in ("struct S(Vec<Self>);", "struct S { a: Vec<Self> }", "struct S<T>(Vec<Self>, ::core::marker::PhantomData<T>);"):
            if "<T>" in it and d not in ("Into",):
                it = it.replace("Vec<Self>", "#[%s] Vec<Self>" % {"IntoIterator": "into_iterator", "IndexMut": "index_mut", "DerefMut": "deref_mut", "AsRef": "as_ref", "AsMut": "as_mut"}.get(d, d.lower())) if d not in ("From",) else None
            if it:
                pairs.append((d, pre + it))
    res = svc([{"derive": d, "item": it} for d, it in pairs])
    # helper attributes on the first / the last / every variant or field of every shape (placed by the engine, which also returns the text)
    dreqs = []
    for d in derives:
        for level, attr in member_attrs(d):
            for which in ("first", "last", "all"):
                for it in EMPTY_SHAPES + PLAIN_SHAPES:
                    if d == "Error" and "'a" in it:
                        continue     # an error source must be 'static
                    dreqs.append({"derive": d, "item": it, "decorate": {"level": level, "which": which, "attr": attr}})
    dres = svc(dreqs)
    seen = set(pairs)
    on_all = set()     # the same conversion attribute on every member can make the user's impls overlap (E0119): theirs, not the derive's
    for q, r in zip(dreqs, dres):
        if r["k"] == "parsefail" or (q["derive"], r.get("item")) in seen:
            continue     # nothing to decorate (no such member) / same text as another placement
        seen.add((q["derive"], r["item"]))
        pairs.append((q["derive"], r["item"]))
        res.append(r)
        if q["decorate"]["which"] == "all":
            on_all.add((q["derive"], r["item"]))
    # the derive whose impl the subject builds on must accept the shape too, or there is nothing to compile against
    pre = svc([{"derive": PREREQ_REQ[d][0], "item": PREREQ_REQ[d][1] + it} if d in PREREQ_REQ else {"derive": "Debug", "item": "struct Q;"} for d, it in pairs])
    cases = []
    for (d, it), r, pr in zip(pairs, res, pre):
        chk.count(states=1, transitions=1)
        if r["k"] != "ok":
            chk.outcome("degenerate-diagnosed")
            continue
        if pr["k"] != "ok":
            chk.outcome("degenerate-prerequisite-derive-diagnosed")
            continue
        src = "%s#[derive(derive_more::%s)] %s" % (PREREQ.get(d, ""), d, it)
        cases.append(Case("g%d" % len(cases), "#[allow(unused_imports)] use super::*;\n" + src, has_run=False, meta=dict(derive=d, src=src, twin=it, on_all=(d, it) in on_all,
                                                                                                                   known="c01-generic-parameter-naming-lints" if re.search(r"S<(t|r#type)\b", it.replace(" ", "")) else
                                                                                                                   ("c01-implicit-object-lifetime-behind-pointer" if re.search(r"\*(const|mut)dyn::core::fmt::Debug[,)};]", it.replace(" ", "")) and "ref" in it else None))))
    # the companion impl a derive builds on written by hand instead of derived (deref_mut.md: "requires that the type also implements
    # Deref, so usually Deref should also be derived"; likewise IndexMut/Index and Sum/Add), on generic types
    # known finding: `#[deref_mut(forward)]` adds `where FieldTy: DerefMut`; once that predicate mentions a parameter it hides what
    # `<FieldTy as Deref>::Target` is, so a hand-written `Deref` whose Target is spelled concretely no longer matches
    KID_DM = "c01-deref-mut-forward-beside-hand-written-deref"
    hand = [
        ("DerefMut", "#[deref_mut(forward)] struct S<T>(Box<T>);", "impl<T> ::core::ops::Deref for S<T> { type Target = T; fn deref(&self) -> &T { &self.0 } }", KID_DM),
        ("DerefMut", "#[deref_mut(forward)] struct S<'a>(&'a mut u8);", "impl ::core::ops::Deref for S<'_> { type Target = u8; fn deref(&self) -> &u8 { self.0 } }", KID_DM),
        ("DerefMut", "#[deref_mut(forward)] struct S(Box<u8>);", "impl ::core::ops::Deref for S { type Target = u8; fn deref(&self) -> &u8 { &self.0 } }"),
        ("DerefMut", "struct S<T>(Vec<T>);", "impl<T> ::core::ops::Deref for S<T> { type Target = Vec<T>; fn deref(&self) -> &Vec<T> { &self.0 } }"),
        ("DerefMut", "#[deref_mut(forward)] struct S<T> { a: Vec<T> }", "impl<T> ::core::ops::Deref for S<T> { type Target = [T]; fn deref(&self) -> &[T] { &self.a } }", KID_DM),
        # (the same with the Target spelled as the projection the derive uses: no known finding)
        ("DerefMut", "#[deref_mut(forward)] struct S<T>(Box<T>);", "impl<T> ::core::ops::Deref for S<T> { type Target = <Box<T> as ::core::ops::Deref>::Target; fn deref(&self) -> &Self::Target { &self.0 } }"),
        ("IndexMut", "struct S<T>(Vec<T>);", "impl<T, I> ::core::ops::Index<I> for S<T> where Vec<T>: ::core::ops::Index<I> { type Output = <Vec<T> as ::core::ops::Index<I>>::Output; fn index(&self, i: I) -> &Self::Output { &self.0[i] } }"),
        # `Self` in the type's own where-clause / parameter bounds (the predicates are copied onto impls whose Self is another type)
        ("Into", "struct S(H<(), 1>, H<(), 2>) where Self: Tr2;", "impl Tr2 for S {}"),
        ("Into", "#[into(owned, ref, ref_mut)] struct S<T: Tr3<Self>>(Vec<T>, u8);", "impl<T> Tr3<S<T>> for T {} #[allow(dead_code)] fn _use(s: S<u8>) -> (Vec<u8>, u8) { s.into() }"),
        ("TryInto", "#[try_into(owned, ref, ref_mut)] enum S where Self: Tr2 { A(H<(), 1>), B(H<(), 2>) }", "impl Tr2 for S {}"),
        ("IntoIterator", "#[into_iterator(owned, ref, ref_mut)] struct S(Vec<u8>) where Self: Tr2;", "impl Tr2 for S {} #[allow(dead_code)] fn _use(mut s: S) { for _ in &s {} for _ in &mut s {} for _ in s {} }"),
        ("From", "struct S(H<(), 1>) where Self: Tr2;", "impl Tr2 for S {}"),
        # a bare trait-object field whose trait has a lifetime bound of its own (the object lifetime defaults to it, not to 'static)
        ("AsRef", "struct S<'a>(u8, #[as_ref] dyn TrL<'a>);", ""), ("AsMut", "struct S<'a>(dyn TrL<'a>);", ""), ("AsRef", "struct S<'a> { #[as_ref] a: Box<u8>, #[as_ref] b: dyn TrL<'a> + Send }", ""),
        # ... and a trait object written by a macro in type position (second reading of 302ad61: no `dyn` token for the derive to see)
        ("AsRef", "struct S(ObjM!());", ""),
        ("AsMut", "struct S<'a>(u8, #[as_mut] ObjM!('a));", ""),
        ("Unwrap", "#[unwrap(ref_mut)] enum S { A(PtrM!()), B }", ""),
        ("TryUnwrap", "#[try_unwrap(ref)] enum S { A(u8, PtrM!()), B }", ""),
        ("Into", "#[into(ref_mut)] struct S(PtrM!(mut));", ""),
        ("TryInto", "#[try_into(ref, ref_mut)] enum S { A(PtrM!()), B(u8) }", ""),
        ("Sum", "struct S<T>(T);", "impl<T: ::core::ops::Add<Output = T>> ::core::ops::Add for S<T> { type Output = Self; fn add(self, o: Self) -> Self { S(self.0 + o.0) } }"),
    ]
    for d, it, companion, *kid in hand:
        src = "#[derive(derive_more::%s)] %s %s" % (d, it, companion)
        cases.append(Case("g%d" % len(cases), "#[allow(unused_imports)] use super::*;\n" + src, has_run=False, meta=dict(derive=d, src=src, twin=it + " " + companion, on_all=False, decorate=True, known=kid[0] if kid else None)))
    eng = CompileEngine("C01G", header=HEADER, prelude=PRELUDE, mode="check", per_bin=max(20, len(cases) // 16 + 1))
    results = eng.run_cases(cases)
    for c in cases:
        r = results[c.cid]
        chk.count(states=1, transitions=1)
        if r.compile == "ok":
            chk.outcome("degenerate-accepted-compiles")
            continue
        if c.meta["on_all"] and r.diags and all("E0119" in d["rendered"] for d in r.diags):
            chk.outcome("degenerate-accepted-users-impls-overlap")
            continue
        chk.outcome("degenerate-accepted-%s" % r.compile)
        msg = re.sub(r"g\d+::", "", r.diags[0]["message"]) if r.diags else "?"
        chk.violation("rustc: derive(%s) accepts a degenerate shape but the expansion %s: %s" % (c.meta["derive"], "does not compile" if r.compile == "error" else "warns", re.sub(r"`[^`]*`", "`..`", msg)[:80]),
                      c.meta["src"], "; ".join(re.sub(r"g\d+::", "", d["message"]) for d in r.diags[:4]) + "\n" + (r.diags[0]["rendered"][:900] if r.diags else ""), known_id=c.meta.get("known"))
    # ---- the same items generated by a `macro_rules!` that receives the field types as `$t:ty` fragments: the derive then sees every
    # such type inside an invisible group (`syn::Type::Group`).  Oracle: the macro-generated twin of a program that compiles, compiles.
    mcases = []
    specials = [("From", "#[from($t1)] struct S($t1);"), ("From", "#[from($t3)] struct S($t1, $t2);"), ("Into", "#[into($t3)] struct S($t1, $t2);"), ("Into", "#[into($t1)] struct S($t1);"),
                ("TryInto", "enum S { A($t1), B(%s), Cc }" % _C1), ("TryInto", "#[try_into(owned, ref)] enum S { A($t1, $t2), B(%s, %s) }" % (_C1, _C2)),
                ("AsRef", "#[as_ref($t1)] struct S($t1);"), ("AsRef", "#[as_ref($t1)] struct S(%s);" % _C1), ("AsMut", "#[as_mut($t1)] struct S(%s);" % _C1),
                ("From", "enum S { #[from($t1)] A(%s), B($t2) }" % _C1), ("Constructor", "struct S { a: $t1, b: $t3 }"), ("TryFrom", "#[try_from(repr)] #[repr(u8)] enum S { A = 1, B($t1) }"),
                ("Error", "#[derive(Debug, derive_more::Display)] #[display(\"e\")] struct S { source: $t1, other: $t2 }"), ("Display", "#[display(\"{_0} {_1}\")] struct S($t1, $t2);"),
                ("Debug", "struct S<T>($t1, T);"), ("Deref", "struct S { #[deref] a: $t1, b: $t2 }"), ("IntoIterator", "struct S(#[into_iterator(owned, ref)] $t1, $t2);"),
                # a fragment inside a larger type or expression: an `$e:expr` operand of an array length, a `$t:ty` generic argument, a
                # trait object (one bound / several bounds) and a type parameter arriving as `$t:ty`
                ("TryInto", "enum S { A(Vec<$t1>), B(Vec<%s>), Cc }" % _C1), ("TryInto", "#[try_into(owned, ref, ref_mut)] enum S { A(Option<$t1>, $t2), B(Option<%s>, %s) }" % (_C1, _C2)),
                ("AsRef", "struct S($d1);"), ("AsMut", "struct S($d1);"), ("AsRef", "struct S($d);"), ("AsMut", "struct S($d);"), ("AsRef", "struct S { a: u8, #[as_ref] b: $d }"),
                ("Into", "#[into(ref, ref_mut)] struct S($d);"), ("Into", "#[into(ref)] struct S(Box<$d>, $t1);"), ("From", "struct S(Box<$d>);"), ("Deref", "struct S(Box<$d>);"),
                # ... a trait-object fragment behind a reference or a raw pointer written in the macro body (several bounds; one trait and a lifetime)
                ] + [(d, it) for it in ("struct S(&'static $d);", "struct S(&'static $dl);", "struct S<'a>(&'a mut $d, u8);", "struct S(*const $dl);", "struct S { a: &'static mut $dl, b: *mut $d }",
                                        "enum S { A(&'static $dl), B(u8) }")
                     for d in ("AsRef", "Constructor", "Debug", "From", "Into", "Deref", "Unwrap", "TryInto", "IsVariant")] + [
                ("AsRef", "struct S<T>(#[as_ref(T)] $tp);"), ("AsMut", "struct S<T>(#[as_mut(T)] $tp);"), ("AsRef", "struct S<T>(#[as_ref(Vec<T>)] Vec<$tp>);"),
                ("From", "#[from(Vec<$t1>)] struct S(Vec<%s>);" % _C1), ("Into", "#[into(Vec<$t1>)] struct S(Vec<%s>);" % _C1), ("AsRef", "#[as_ref(Vec<$t1>)] struct S(Vec<%s>);" % _C1),
                # ... a fragment in the ATTRIBUTE that equals the field's type: the direct form, usable for every T
                ("AsRef", "struct S<T>(#[as_ref($tp)] $tp); #[allow(dead_code)] fn _use(s: &S<u8>) -> &u8 { s.as_ref() }"),
                ("AsMut", "struct S<T>(#[as_mut($tp)] $tp); #[allow(dead_code)] fn _use(s: &mut S<u8>) -> &mut u8 { s.as_mut() }"),
                ("AsRef", "#[as_ref(Vec<$tp>)] struct S<T>(Vec<$tp>); #[allow(dead_code)] fn _use(s: &S<u8>) -> &Vec<u8> { s.as_ref() }"),
                ("AsRef", "struct S<T>(#[as_ref($tp)] T); #[allow(dead_code)] fn _use(s: &S<u8>) -> &u8 { s.as_ref() }"),
                ("From", "#[from($tp)] struct S<T>($tp); #[allow(dead_code)] fn _use() -> S<u8> { S::from(1u8) }"),
                # type and pattern fragments inside format arguments (they also read as expressions; parentheses around them are linted)
                ("Display", "#[display(\"{} {}\", ::core::mem::size_of::<$r>(), matches!(1u8, $pt))] struct S;"), ("Debug", "#[debug(\"{}\", ::core::mem::size_of::<$r>())] enum S { #[debug(\"{}\", matches!(2u8, $pt))] A, B }"),
                ("Display", "#[display(\"{} {}\", $e, 2 * $e)] struct S;"), ("Debug", "#[debug(\"{} {a}\", $e, a = -$e)] struct S;"), ("Display", "enum S { #[display(\"{}\", $e)] A, #[display(\"{}\", 7 - $e)] B }"),
                ("TryFrom", "#[try_from(repr)] #[repr(u8)] enum S { A = $e, B = 2 * $e }"), ("TryFrom", "#[try_from(repr)] enum S { A = $e, B, Cc = 7 - $e }"), ("From", "struct S([u8; $e]);"),
                ] + [(d, it) for it in ("struct S([u8; 2 * $e]);", "struct S { a: [u8; 7 - $e], b: u8 }", "enum S { A([u8; 2 * $e]), B }", "struct S(H<(), { 2 * $e }>);")
                     for d in ("From", "Into", "AsRef", "Deref", "DerefMut", "Constructor", "Debug", "TryInto", "Unwrap", "IsVariant", "Index", "IntoIterator")]
    def macro_twin(cid, d, prefix, item):
        body = "%s#[derive(derive_more::%s)] %s" % (prefix, d, item)
        pars = "$t1:ty, $t2:ty, $t3:ty, $e:expr, $d1:ty, $d:ty, $tp:ty, $dl:ty, $r:ty, $pt:pat"
        args = "%s, %s, (%s, %s), 1 + 1, dyn ::core::fmt::Debug, dyn ::core::fmt::Debug + Send, T, dyn ::core::fmt::Debug + 'static, &'static u8, 1 | 2" % (_C1, _C2, _C1, _C2)
        mod = "#[allow(unused_imports)] use super::*;\nmacro_rules! mk { (%s) => { %s } }\nmk!(%s);" % (pars, body, args)
        return Case(cid, mod, has_run=False, meta=dict(derive=d, src="macro_rules! mk { (%s) => { %s } } mk!(%s);" % (pars, body, args)))
    for c in cases:
        if results[c.cid].compile == "ok" and (_C1 in c.meta["twin"] or _C2 in c.meta["twin"]) and "decorate" not in c.meta:
            item = c.meta["twin"].replace(_C1, "$t1").replace(_C2, "$t2")
            mcases.append(macro_twin("m%d" % len(mcases), c.meta["derive"], PREREQ.get(c.meta["derive"], ""), item))
    # the hand-placed ones: their directly written twin (fragments substituted as text, an expression in parentheses) is compiled
    # along; only where THAT compiles is the macro-generated one judged
    subst = [("$t1", _C1), ("$t2", _C2), ("$t3", "(%s, %s)" % (_C1, _C2)), ("$e", "(1 + 1)"), ("$d1", "dyn ::core::fmt::Debug"), ("$dl", "dyn ::core::fmt::Debug + 'static"), ("$d", "dyn ::core::fmt::Debug + Send"), ("$tp", "T"), ("$r", "&'static u8"), ("$pt", "1 | 2")]
    direct = {}
    for d, item in specials:
        m = macro_twin("m%d" % len(mcases), d, PREREQ.get(d, ""), item)
        mcases.append(m)
        txt = item
        for a, b in subst:
            txt = re.sub(re.escape(a) + r"\b", lambda _m: b, txt)
        txt = re.sub(r"(&\s*(?:'\w+\s+)?(?:mut\s+)?|\*const\s+|\*mut\s+)(dyn ::core::fmt::Debug \+ (?:Send|'static))", lambda mm: "%s(%s)" % (mm.group(1), mm.group(2)), txt)
        direct[m.cid] = Case("d" + m.cid, "#[allow(unused_imports)] use super::*;\n%s#[derive(derive_more::%s)] %s" % (PREREQ.get(d, ""), d, txt), has_run=False)
    meng = CompileEngine("C01M", header=HEADER, prelude=PRELUDE, mode="check", per_bin=max(20, len(mcases) // 16 + 1))
    mres = meng.run_cases(mcases + list(direct.values()))
    for c in mcases:
        r = mres[c.cid]
        chk.count(states=1, transitions=1)
        if c.cid in direct and mres[direct[c.cid].cid].compile != "ok":
            chk.outcome("macro-generated-twin-skipped-direct-form-%s" % mres[direct[c.cid].cid].compile)
            continue
        if r.compile == "ok":
            chk.outcome("macro-generated-twin-compiles")
            continue
        chk.outcome("macro-generated-twin-%s" % r.compile)
        msg = re.sub(r"m\d+::", "", r.diags[0]["message"]) if r.diags else "?"
        chk.violation("rustc: derive(%s) on an item whose field types arrive as `$t:ty` fragments %s: %s" % (c.meta["derive"], "does not compile" if r.compile == "error" else "warns", re.sub(r"`[^`]*`", "`..`", msg)[:80]),
                      c.meta["src"], "; ".join(re.sub(r"m\d+::", "", d["message"]) for d in r.diags[:4]) + "\n" + (r.diags[0]["rendered"][:900] if r.diags else ""))
    chk.part("macro_generated_items", programs=len(mcases), oracle="the twin of a compiling program, generated by a macro_rules! that passes the field types (and listed types) as $t:ty fragments, compiles")
    chk.part("degenerate_shapes", shapes=EMPTY_SHAPES, plain_shapes=PLAIN_SHAPES, exotic_field_types=EXOTIC_TYPES, type_agnostic_derives=AGNOSTIC, derives=len(derives), pairs=len(pairs), accepted_and_compiled=len(cases),
             oracle="accepted in-process => compiles under #![deny(warnings)]; a diagnostic is the other allowed outcome (totality itself is C18)")


def run(chk, tier):
    thorough = tier == "thorough"
    tab, gens, cases, metas, reqs = build(thorough)
    chk.part("space", programs=len(cases), derives=len(tab), templates=sum(len(v) for v in tab.values()), generics=[g["name"] for g in gens],
             naming=["plain", "raw identifiers (type, variant, field)", "names of the derived traits' associated items (Output, Target, Error, Err, Item, IntoIter)"], decorations=list(DECOS))
    # ---------------- seam A
    res = svc(reqs)
    for (cid, g), q, r, c in zip(metas, reqs, res, cases):
        chk.count(states=1, transitions=1)
        if r["k"] != "ok":
            chk.outcome("A-" + r["k"])
            sig = "in-process: supported input %s by derive(%s)" % ("rejected" if r["k"] == "err" else r["k"], c.meta["derive"])
            chk.violation("%s: %s" % (sig, re.sub(r"`[^`]*`", "`..`", r.get("msg", ""))[:70]), c.meta["src"], r.get("msg", "")[:300] + " " + r.get("loc", ""))
            continue
        probs = header_invariants(c.meta["derive"], q["item"], r["out"], g)
        if probs:
            chk.outcome("A-header-invariant")
            chk.violation("in-process: impl header invariant (%s): %s" % (c.meta["derive"], probs[0].split("`")[0][:60]), c.meta["src"], "; ".join(probs[:3]))
        else:
            chk.outcome("A-ok")
    # ---------------- seam B
    eng = CompileEngine("C01", header=HEADER, prelude=PRELUDE, mode="check", per_bin=max(20, len(cases) // 16 + 1))
    results = eng.run_cases(cases)
    failing = [c for c in cases if results[c.cid].compile != "ok"]
    # control twins for the failing ones: diagnostics that also appear without the derive are the generator's, not the derive's
    twin_msgs = {}
    if failing:
        tw = [Case("t" + c.cid, "#[allow(unused_imports)] use super::*;\n" + c.meta["twin"], has_run=False) for c in failing]
        eng2 = CompileEngine("C01T", header=HEADER, prelude=PRELUDE, mode="check", per_bin=max(20, len(tw) // 16 + 1))
        tres = eng2.run_cases(tw)
        for c in failing:
            twin_msgs[c.cid] = {d["message"] for d in tres["t" + c.cid].diags}
    for c in cases:
        r = results[c.cid]
        chk.count(states=1, transitions=1)
        if r.compile == "ok":
            chk.outcome("B-clean/%s" % c.meta["deco"])
            if c.meta["gen"] != "none" or c.meta["deco"] != "none":
                chk.sample({"program": c.meta["src"], "verdict": "compiles under #![deny(warnings)]"})
            continue
        own = [d for d in r.diags if d["message"] not in twin_msgs.get(c.cid, set())]
        if not own:
            raise Exception("generator bug: control twin of %s shows the same diagnostics: %s" % (c.meta["src"], [d["message"] for d in r.diags][:3]))
        chk.outcome("B-%s/%s" % (r.compile, c.meta["deco"]))
        msg = re.sub(r"c\d+::", "", own[0]["message"])
        gen_msg = re.sub(r"`[^`]*`", "`..`", msg)[:80]
        feat = []
        if c.meta["deco"] != "none":
            feat.append(c.meta["deco"])
        if c.meta["raw"]:
            feat.append("raw-names")
        if c.meta["gen"] != "none":
            feat.append("generic")
        chk.violation("rustc: derive(%s) %s [%s]: %s" % (c.meta["derive"], "does not compile" if r.compile == "error" else "warns", ",".join(feat), gen_msg),
                      c.meta["src"], "; ".join(re.sub(r"c\d+::", "", d["message"]) for d in own[:4]) + "\n" + own[0]["rendered"][:900])
    part_accepted_compiles(chk, thorough)
    chk.part("engine", bins_built=eng.bins_built, rounds=eng.rounds, build_s=round(eng.build_s, 1), failing_cases_rechecked_against_control_twin=len(failing))
    chk.assumptions += ["supported shapes / attribute modes per derive are transcribed from impl/doc/*.md (props/c01.py table)",
                        "the carrier type H<X, N> uses every declared parameter and implements every trait any derive needs, so 'field types meet the documented trait requirements' holds by construction",
                        "a diagnostic counts against the derive only if the control twin (derive and helper attributes stripped) does not produce it"]
