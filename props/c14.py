"""C14 - delegating derives expose the selected field itself (DESIGN.md §3 C14)."""
import itertools

from compile_engine import Case, CompileEngine

PRELUDE = r'''
pub fn adr<T: ?Sized>(x: &T) -> usize { x as *const T as *const u8 as usize }
#[derive(Debug, PartialEq, Clone)] pub struct Target(pub u32);
#[derive(Debug, PartialEq, Clone)] pub struct Inner { pub a: u32, pub other: Target }
pub fn inner(n: u32) -> Inner { Inner { a: n, other: Target(n + 1000) } }
pub static DECOY: Inner = Inner { a: 777, other: Target(778) };
impl AsRef<Target> for Inner { fn as_ref(&self) -> &Target { &self.other } }
impl AsMut<Target> for Inner { fn as_mut(&mut self) -> &mut Target { &mut self.other } }
// deliberately NOT the identity: a listed type equal to the field's type must yield the field itself
impl AsRef<Inner> for Inner { fn as_ref(&self) -> &Inner { &DECOY } }
impl AsMut<Inner> for Inner { fn as_mut(&mut self) -> &mut Inner { Box::leak(Box::new(inner(999))) } }
pub type InnerAlias = Inner;
#[derive(Debug, PartialEq, Clone)] pub struct Bx(pub Inner);
impl ::core::ops::Deref for Bx { type Target = Inner; fn deref(&self) -> &Inner { &self.0 } }
impl ::core::ops::DerefMut for Bx { fn deref_mut(&mut self) -> &mut Inner { &mut self.0 } }
#[derive(Debug, PartialEq, Clone)] pub struct Key(pub usize);
#[derive(Debug, PartialEq, Clone)] pub struct Tbl(pub Vec<u32>);
impl ::core::ops::Index<Key> for Tbl { type Output = u32; fn index(&self, k: Key) -> &u32 { &self.0[self.0.len() - 1 - k.0] } }
impl ::core::ops::IndexMut<Key> for Tbl { fn index_mut(&mut self, k: Key) -> &mut u32 { let n = self.0.len(); &mut self.0[n - 1 - k.0] } }
/// a collection whose trait impls forward to the inner Vec
#[derive(Debug, PartialEq, Clone)] pub struct Bag(pub Vec<u32>);
impl IntoIterator for Bag { type Item = u32; type IntoIter = ::std::vec::IntoIter<u32>; fn into_iter(self) -> Self::IntoIter { IntoIterator::into_iter(self.0) } }
impl<'a> IntoIterator for &'a Bag { type Item = &'a u32; type IntoIter = ::core::slice::Iter<'a, u32>; fn into_iter(self) -> Self::IntoIter { self.0.iter() } }
impl<'a> IntoIterator for &'a mut Bag { type Item = &'a mut u32; type IntoIter = ::core::slice::IterMut<'a, u32>; fn into_iter(self) -> Self::IntoIter { self.0.iter_mut() } }
/// unsized field types whose own AsRef<Self>/AsMut<Self> are NOT the identity (they skip the first byte / return a decoy)
#[repr(transparent)] pub struct Tag(pub str);
impl Tag { pub fn new(s: &str) -> &Tag { unsafe { &*(s as *const str as *const Tag) } } pub fn new_mut(s: &mut str) -> &mut Tag { unsafe { &mut *(s as *mut str as *mut Tag) } } }
impl AsRef<Tag> for Tag { fn as_ref(&self) -> &Tag { Tag::new(&self.0[1..]) } }
impl AsMut<Tag> for Tag { fn as_mut(&mut self) -> &mut Tag { Tag::new_mut(&mut self.0[1..]) } }
impl AsRef<str> for Tag { fn as_ref(&self) -> &str { &self.0[2..] } }
impl AsMut<str> for Tag { fn as_mut(&mut self) -> &mut str { &mut self.0[2..] } }
pub type Label = Tag;
pub trait Shape { fn sides(&self) -> u32; }
pub struct Sq; impl Shape for Sq { fn sides(&self) -> u32 { 4 } }
pub struct Tri; impl Shape for Tri { fn sides(&self) -> u32 { 3 } }
pub static TRI: Tri = Tri;
impl AsRef<dyn Shape> for dyn Shape { fn as_ref(&self) -> &(dyn Shape + 'static) { &TRI } }
impl AsMut<dyn Shape> for dyn Shape { fn as_mut(&mut self) -> &mut (dyn Shape + 'static) { Box::leak(Box::new(Tri)) } }
pub type DynAlias = dyn Shape;
pub fn fat(t: &Tag) -> (usize, usize) { (t.0.as_ptr() as usize, t.0.len()) }
/// a collection that can only be iterated by reference
#[derive(Debug, PartialEq, Clone)] pub struct OnlyRef(pub Vec<u32>);
impl<'a> IntoIterator for &'a OnlyRef { type Item = &'a u32; type IntoIter = ::core::slice::Iter<'a, u32>; fn into_iter(self) -> Self::IntoIter { self.0.iter() } }
// DECOYS: inherent methods named like the delegated traits' methods, same signatures, doing something else.  Method-call
// syntax (`field.deref()`) prefers them; the fully qualified call the property demands (`Deref::deref(&field)`) never sees them.
#[allow(clippy::should_implement_trait)]
impl Bx { pub fn deref(&self) -> &Inner { &DECOY } pub fn deref_mut(&mut self) -> &mut Inner { Box::leak(Box::new(inner(998))) } }
#[allow(clippy::should_implement_trait)]
impl Inner { pub fn as_ref(&self) -> &Target { &DECOY.other } pub fn as_mut(&mut self) -> &mut Target { Box::leak(Box::new(Target(997))) }
             pub fn deref(&self) -> &Inner { &DECOY } pub fn deref_mut(&mut self) -> &mut Inner { Box::leak(Box::new(inner(995))) } }
#[allow(clippy::should_implement_trait)]
impl Tbl { pub fn index(&self, _: Key) -> &u32 { &DECOY.a } pub fn index_mut(&mut self, _: Key) -> &mut u32 { Box::leak(Box::new(996)) } }
#[allow(clippy::should_implement_trait)]
impl Bag { pub fn into_iter(self) -> ::std::vec::IntoIter<u32> { let mut v = self.0; v.reverse(); IntoIterator::into_iter(v) }
           pub fn iter(&self) -> ::core::iter::Rev<::core::slice::Iter<'_, u32>> { self.0.iter().rev() } }
'''


class St:
    """A struct under test: n fields, field `sel` is the selected one."""

    def __init__(self, n, sel, named, same, selty, selval, generic=False, raw=False):
        self.n, self.sel, self.named, self.same, self.generic = n, sel, named, same, generic
        pool = ["zeta", "_under", "alpha", "mid"]   # declaration order is not alphabetical order; a name starting with `_`
        self.names = [("r#type" if (raw and i == sel) else pool[i]) if named else str(i) for i in range(n)]
        self.selty, self.selval = selty, selval
        self.tys = []
        self.vals = []
        for i in range(n):
            if i == sel or same:
                self.tys.append("T" if generic else selty)
                self.vals.append(selval(i))
            else:
                self.tys.append("u8")
                self.vals.append("%du8" % (i + 1))

    def decl(self, sattrs, fattrs):
        g = "<T>" if self.generic else ""
        fs = []
        for i in range(self.n):
            a = fattrs.get(i, "")
            fs.append("%s pub %s%s" % (a, (self.names[i] + ": ") if self.named else "", self.tys[i]))
        body = "{ %s }" % ", ".join(fs) if self.named else "(%s);" % ", ".join(fs)
        return "%s\npub struct S%s %s" % ("\n".join(sattrs), g, body)

    def ctor(self):
        if self.named:
            return "S { %s }" % ", ".join("%s: %s" % (a, v) for a, v in zip(self.names, self.vals))
        return "S(%s)" % ", ".join(self.vals)

    def fld(self, i=None):
        return "s.%s" % self.names[self.sel if i is None else i]


def selection_attrs(attr, st, mode, arg=""):
    """mode: implicit | mark | ignore_others. arg: e.g. 'forward' or type list for the marking attribute."""
    f = {}
    s = []
    a = "#[%s(%s)]" % (attr, arg) if arg else "#[%s]" % attr
    if mode == "implicit":
        if arg:
            s.append(a)
    elif mode == "mark":
        f[st.sel] = a
    else:
        for i in range(st.n):
            if i != st.sel:
                f[i] = "#[%s(ignore)]" % attr
        if arg:
            f[st.sel] = a
    return s, f


def gen_cases(thorough):
    cases = []

    def add(derive_desc, st, sattrs, fattrs, derives, body):
        inst = "S<%s>" % st.selty if st.generic else "S"
        mod = """use super::*;
#[derive(Clone, Debug, PartialEq, %s)]
%s
type SS = %s;
pub fn run(r: &mut R) {
    %s
}""" % (", ".join("derive_more::" + d for d in derives), st.decl(sattrs, fattrs), inst, "\n    ".join(body))
        src = "#[derive(%s)] %s" % (", ".join(derives), " ".join(st.decl(sattrs, fattrs).split()))
        cases.append(Case("c%d" % len(cases), mod, meta={"derive": derive_desc, "src": src}))

    nmax = 4 if thorough else 3
    shapes = []
    for n in range(1, nmax + 1):
        for sel in range(n):
            for named in (False, True):
                for same in ((False, True) if n > 1 else (False,)):
                    modes = ["implicit"] if n == 1 else ["mark", "ignore_others"]
                    if n == 1 and thorough:
                        modes.append("mark")
                    for mode in modes:
                        shapes.append((n, sel, named, same, mode))

    for (n, sel, named, same, mode) in shapes:
        # ---------------- Deref / DerefMut, direct
        st = St(n, sel, named, same, "Inner", lambda i: "inner(%d)" % (10 * (i + 1)))
        sa, fa = selection_attrs("deref", st, mode)
        sa2, fa2 = selection_attrs("deref_mut", st, mode)
        fam = {i: fa.get(i, "") + " " + fa2.get(i, "") for i in range(n)}
        body = ["let mut s: SS = %s;" % st.ctor(),
                'r.eq("Deref returns the selected field itself", adr(&*s), adr(&%s));' % st.fld(),
                'r.eq("Deref::Target value", (*s).clone(), %s);' % st.vals[sel],
                "let a = adr(&%s);" % st.fld(),
                'r.eq("DerefMut returns the selected field itself", adr(&mut *s), a);',
                "(*s).a = 4242;",
                'r.eq("write through DerefMut is visible in the field", %s.a, 4242);' % st.fld()]
        add("Deref+DerefMut direct", st, sa + sa2, fam, ["Deref", "DerefMut"], body)
        # ---------------- Deref / DerefMut, forward
        st = St(n, sel, named, same, "Bx", lambda i: "Bx(inner(%d))" % (10 * (i + 1)))
        sa, fa = selection_attrs("deref", st, mode, "forward")
        sa2, fa2 = selection_attrs("deref_mut", st, mode, "forward")
        fam = {i: fa.get(i, "") + " " + fa2.get(i, "") for i in range(n)}
        body = ["let mut s: SS = %s;" % st.ctor(),
                'r.eq("forwarded Deref returns what the field derefs to", adr(&*s), adr(<Bx as ::core::ops::Deref>::deref(&%s)));' % st.fld(),
                'r.eq("forwarded Deref value", (*s).clone(), inner(%d));' % (10 * (sel + 1)),
                "let a = adr(&%s.0);" % st.fld(),
                'r.eq("forwarded DerefMut", adr(&mut *s), a);',
                "(*s).a = 4242;",
                'r.eq("write through forwarded DerefMut is visible", %s.0.a, 4242);' % st.fld()]
        add("Deref+DerefMut forward", st, sa + sa2, fam, ["Deref", "DerefMut"], body)
        # ---------------- Deref / DerefMut: the field-level attribute overrides the struct-level one, in both directions
        if mode in ("implicit", "ignore_others"):
            for s_arg, f_arg, fwd in (("forward", "not(forward)", False), ("not(forward)", "forward", True)):
                st = St(n, sel, named, same, "Bx", lambda i: "Bx(inner(%d))" % (10 * (i + 1)))
                fam = {i: ("#[deref(%s)] #[deref_mut(%s)]" % (f_arg, f_arg)) if i == sel else "#[deref(ignore)] #[deref_mut(ignore)]" for i in range(n)}
                sa = ["#[deref(%s)]" % s_arg, "#[deref_mut(%s)]" % s_arg]
                if fwd:
                    body = ["let mut s: SS = %s;" % st.ctor(),
                            'r.eq("field-level forward wins over struct-level not(forward)", adr(&*s), adr(<Bx as ::core::ops::Deref>::deref(&%s)));' % st.fld(),
                            'r.eq("... and the target is what the field derefs to", ::core::any::type_name_of_val(&*s), ::core::any::type_name::<Inner>());',
                            "let a = adr(&%s.0);" % st.fld(),
                            'r.eq("... for DerefMut too", adr(&mut *s), a);',
                            'r.eq("... with the same target", ::core::any::type_name_of_val(&mut *s), ::core::any::type_name::<Inner>());']
                else:
                    body = ["let mut s: SS = %s;" % st.ctor(),
                            'r.eq("field-level not(forward) wins over struct-level forward: the field itself", adr(&*s), adr(&%s));' % st.fld(),
                            'r.eq("... and its type is the field\'s type", ::core::any::type_name_of_val(&*s), ::core::any::type_name::<Bx>());',
                            "let a = adr(&%s);" % st.fld(),
                            'r.eq("... for DerefMut too", adr(&mut *s), a);',
                            'r.eq("... with the same target", ::core::any::type_name_of_val(&mut *s), ::core::any::type_name::<Bx>());']
                add("Deref+DerefMut struct-level %s, field-level %s" % (s_arg, f_arg), st, sa, fam, ["Deref", "DerefMut"], body)
        # ---------------- AsRef / AsMut
        for kind in ("direct", "forward", "types_target", "types_own", "types_alias", "types_both"):
            if mode == "ignore_others" and kind != "direct":
                continue  # docs: skip cannot be mixed with other attributes
            st = St(n, sel, named, same, "Inner", lambda i: "inner(%d)" % (10 * (i + 1)))
            arg = {"direct": "", "forward": "forward", "types_target": "Target", "types_own": "Inner",
                   "types_alias": "InnerAlias", "types_both": "Target, Inner"}[kind]
            if mode == "ignore_others":
                fa = {i: "#[as_ref(skip)]" for i in range(n) if i != sel}
                fm = {i: "#[as_mut(ignore)]" for i in range(n) if i != sel}
                sa, sm = [], []
                if same:
                    continue  # all remaining fields would be selected: only one may stay
            else:
                sa, fa = selection_attrs("as_ref", st, mode, arg)
                sm, fm = selection_attrs("as_mut", st, mode, arg)
            fam = {i: fa.get(i, "") + " " + fm.get(i, "") for i in range(n)}
            body = ["let mut s: SS = %s;" % st.ctor()]
            own = kind in ("direct", "types_own", "types_alias", "types_both")
            tgt = kind in ("forward", "types_target", "types_both")
            if own:
                body += ['r.eq("AsRef<field type> yields the field itself (not a forwarded call)", adr(<SS as AsRef<Inner>>::as_ref(&s)), adr(&%s));' % st.fld(),
                         "let a = adr(&%s);" % st.fld(),
                         'r.eq("AsMut<field type> yields the field itself", adr(<SS as AsMut<Inner>>::as_mut(&mut s)), a);',
                         "<SS as AsMut<Inner>>::as_mut(&mut s).a = 4242;",
                         'r.eq("write through AsMut is visible in the field", %s.a, 4242);' % st.fld()]
            if tgt:
                body += ['r.eq("forwarded AsRef<Target>", adr(<SS as AsRef<Target>>::as_ref(&s)), adr(<Inner as AsRef<Target>>::as_ref(&%s)));' % st.fld(),
                         "let a = adr(&%s.other);" % st.fld(),
                         'r.eq("forwarded AsMut<Target>", adr(<SS as AsMut<Target>>::as_mut(&mut s)), a);',
                         "<SS as AsMut<Target>>::as_mut(&mut s).0 = 55;",
                         'r.eq("write through forwarded AsMut is visible", %s.other.0, 55);' % st.fld()]
            if kind == "forward":
                body += ['r.eq("blanket forward reaches the field type\'s own AsRef<Inner> impl", adr(<SS as AsRef<Inner>>::as_ref(&s)), adr(&DECOY));']
            add("AsRef+AsMut " + kind, st, sa + sm, fam, ["AsRef", "AsMut"], body)
        # generic field types (decide direct vs forwarded)
        if mode != "ignore_others":
            for kind, arg in (("generic_T", "T"), ("generic_target", "Target"), ("generic_direct", "")):
                st = St(n, sel, named, same, "Inner", lambda i: "inner(%d)" % (10 * (i + 1)), generic=True)
                sa, fa = selection_attrs("as_ref", st, mode, arg)
                sm, fm = selection_attrs("as_mut", st, mode, arg)
                fam = {i: fa.get(i, "") + " " + fm.get(i, "") for i in range(n)}
                body = ["let mut s: SS = %s;" % st.ctor()]
                if kind in ("generic_T", "generic_direct"):
                    body += ['r.eq("AsRef<T> on S<T> yields the field itself", adr(<SS as AsRef<Inner>>::as_ref(&s)), adr(&%s));' % st.fld(),
                             "let a = adr(&%s);" % st.fld(),
                             'r.eq("AsMut<T> on S<T> yields the field itself", adr(<SS as AsMut<Inner>>::as_mut(&mut s)), a);']
                else:
                    body += ['r.eq("AsRef<Target> on S<T> forwards to T", adr(<SS as AsRef<Target>>::as_ref(&s)), adr(&%s.other));' % st.fld(),
                             "let a = adr(&%s.other);" % st.fld(),
                             'r.eq("AsMut<Target> on S<T> forwards to T", adr(<SS as AsMut<Target>>::as_mut(&mut s)), a);']
                add("AsRef+AsMut " + kind, st, sa + sm, fam, ["AsRef", "AsMut"], body)
        # ---------------- Index / IndexMut
        for cont, mk, probes in (("Vec<u32>", lambda i: "vec![%d, %d, %d]" % (i * 10 + 1, i * 10 + 2, i * 10 + 3), ["1usize", "0..2", ".."]),
                                 ("Tbl", lambda i: "Tbl(vec![%d, %d, %d])" % (i * 10 + 1, i * 10 + 2, i * 10 + 3), ["Key(0)", "Key(2)"])):
            st = St(n, sel, named, same, cont, mk)
            sa, fa = selection_attrs("index", st, mode)
            sa2, fa2 = selection_attrs("index_mut", st, mode)
            fam = {i: fa.get(i, "") + " " + fa2.get(i, "") for i in range(n)}
            body = ["let mut s: SS = %s;" % st.ctor()]
            for p in probes:
                body += ['r.eq("Index[%s] is the field\'s own Index result", adr(&s[%s]), adr(&%s[%s]));' % (p, p, st.fld(), p),
                         '{ let a = adr(&%s[%s]); r.eq("IndexMut[%s]", adr(&mut s[%s]), a); }' % (st.fld(), p, p, p)]
            w = probes[0]
            body += ["s[%s] = 4242;" % w, 'r.eq("write through IndexMut is visible in the field", %s[%s], 4242);' % (st.fld(), w)]
            add("Index+IndexMut " + cont, st, sa + sa2, fam, ["Index", "IndexMut"], body)
        # ---------------- IntoIterator
        for refs, cont in itertools.product(("", "owned, ref, ref_mut", "ref", "ref_mut, owned"), ("Vec<u32>", "Bag")):
            if cont == "Bag":
                # a field type with decoy inherent `into_iter` / `iter`: compare with its trait impls, called by full path
                st = St(n, sel, named, same, "Bag", lambda i: "Bag(vec![%d, %d, %d])" % (i * 10 + 1, i * 10 + 2, i * 10 + 3))
                if refs and mode == "ignore_others":
                    sa = []
                    fa = {i: "#[into_iterator(ignore)]" for i in range(n) if i != sel}
                    fa[sel] = "#[into_iterator(%s)]" % refs
                else:
                    sa, fa = selection_attrs("into_iterator", st, mode, refs)
                body = ["let mut s: SS = %s;" % st.ctor()]
                has = lambda k: (not refs and k == "owned") or (k in [x.strip() for x in refs.split(",")])
                if has("owned"):
                    body += ['r.eq("owned iteration = the field\'s own IntoIterator impl", IntoIterator::into_iter(s.clone()).collect::<Vec<u32>>(), <Bag as IntoIterator>::into_iter(%s.clone()).collect::<Vec<u32>>());' % st.fld()]
                if has("ref"):
                    body += ['r.eq("shared iteration = the field\'s own impl for &Bag", IntoIterator::into_iter(&s).map(|x| adr(x)).collect::<Vec<_>>(), <&Bag as IntoIterator>::into_iter(&%s).map(|x| adr(x)).collect::<Vec<_>>());' % st.fld()]
                if has("ref_mut"):
                    body += ['{ let want = <&Bag as IntoIterator>::into_iter(&%s).map(|x| adr(x)).collect::<Vec<_>>(); r.eq("mutable iteration = the field\'s own impl for &mut Bag", IntoIterator::into_iter(&mut s).map(|x| adr(&*x)).collect::<Vec<_>>(), want); }' % st.fld()]
                add("IntoIterator (field type with inherent into_iter) " + (refs or "default"), st, sa, fa, ["IntoIterator"], body)
                continue
            st = St(n, sel, named, same, "Vec<u32>", lambda i: "vec![%d, %d, %d]" % (i * 10 + 1, i * 10 + 2, i * 10 + 3))
            if refs and mode == "ignore_others":
                sa = []
                fa = {i: "#[into_iterator(ignore)]" for i in range(n) if i != sel}
                fa[sel] = "#[into_iterator(%s)]" % refs
            else:
                sa, fa = selection_attrs("into_iterator", st, mode, refs)
            body = ["let mut s: SS = %s;" % st.ctor()]
            has = lambda k: (not refs and k == "owned") or (k in [x.strip() for x in refs.split(",")])
            if has("owned"):
                body += ['r.eq("owned iteration = the field\'s own", s.clone().into_iter().collect::<Vec<u32>>(), %s.clone().into_iter().collect::<Vec<u32>>());' % st.fld()]
            if has("ref"):
                body += ['r.eq("shared iteration visits the field\'s elements themselves, in order", (&s).into_iter().map(|x| adr(x)).collect::<Vec<_>>(), %s.iter().map(|x| adr(x)).collect::<Vec<_>>());' % st.fld()]
            if has("ref_mut"):
                body += ['{ let want = %s.iter().map(|x| adr(x)).collect::<Vec<_>>(); r.eq("mutable iteration visits the field\'s elements themselves, in order", (&mut s).into_iter().map(|x| adr(&*x)).collect::<Vec<_>>(), want); }' % st.fld(),
                         "for x in &mut s { *x += 1000; }",
                         'r.eq("writes through mutable iteration are visible", %s.clone(), vec![%d, %d, %d]);' % (st.fld(), sel * 10 + 1001, sel * 10 + 1002, sel * 10 + 1003)]
            if has("owned") and has("ref"):
                body += ['r.eq("owned and shared forms visit the same elements in the same order", (&s).into_iter().cloned().collect::<Vec<u32>>(), s.clone().into_iter().collect::<Vec<u32>>());']
            add("IntoIterator " + (refs or "default"), st, sa, fa, ["IntoIterator"], body)
    # ---------------- unsized field types: "the field itself" also when the field's type has no size
    for spelled, desc in (("Label", "own type under an alias"), ("Tag", "own type literally"), (None, "direct")):
        for named in (False, True):
            a = ("#[as_ref(%s)] #[as_mut(%s)] " % (spelled, spelled)) if spelled else ""
            decl = ("pub struct U { %spub t: Tag }" % a) if named else ("pub struct U(%spub Tag);" % a)
            f = "t" if named else "0"
            mod = """use super::*;
#[derive(derive_more::AsRef, derive_more::AsMut)] #[repr(transparent)] %s
fn mk(s: &mut str) -> &mut U { unsafe { &mut *(s as *mut str as *mut U) } }
pub fn run(r: &mut R) {
    let mut buf = String::from("#abc");
    let u = mk(&mut buf);
    let want = fat(&u.%s);
    r.eq("AsRef<Tag> of an unsized field is the field itself (address and length)", fat(<U as AsRef<Tag>>::as_ref(u)), want);
    r.eq("AsMut<Tag> of an unsized field is the field itself (address and length)", fat(<U as AsMut<Tag>>::as_mut(u)), want);
    <U as AsMut<Tag>>::as_mut(u).0.make_ascii_uppercase();
    r.eq("write through AsMut reaches the whole field", u.%s.0.to_string(), String::from("#ABC"));
}""" % (decl, f, f)
            cases.append(Case("c%d" % len(cases), mod, meta={"derive": "AsRef+AsMut unsized str newtype, " + desc, "src": "#[derive(AsRef, AsMut)] " + decl}))
    # (the field is spelled `dyn Shape + 'static`: with the bound left implicit the derived signature `-> &dyn Shape` gets the
    # reference's lifetime as object bound and rustc rejects the impl - a limitation outside what the documentation promises)
    for spelled, desc, fty in (("DynAlias", "own type under an alias", "dyn Shape + 'static"), ("dyn Shape + 'static", "own type literally", "dyn Shape + 'static"), (None, "direct", "dyn Shape + 'static"),
                               # the object lifetime left implicit, as one normally writes a field: it is 'static there, and must stay so in the derived signature
                               (None, "direct, object lifetime implicit", "dyn Shape"), ("dyn Shape", "own type literally, object lifetime implicit", "dyn Shape"),
                               ("DynAlias", "own type under an alias, object lifetime implicit in the field", "dyn Shape")):
        a = ("#[as_ref(%s)] #[as_mut(%s)] " % (spelled, spelled)) if spelled else ""
        decl = "pub struct D(%spub %s);" % (a, fty)
        mod = """use super::*;
#[derive(derive_more::AsRef, derive_more::AsMut)] #[repr(transparent)] %s
fn mk<'a>(s: &'a mut (dyn Shape + 'static)) -> &'a mut D { unsafe { &mut *(s as *mut dyn Shape as *mut D) } }
pub fn run(r: &mut R) {
    let mut sq = Sq;
    let d = mk(&mut sq);
    let want = adr(&d.0);
    r.eq("AsRef<dyn Shape> of a trait-object field is the field itself", (adr(<D as AsRef<dyn Shape>>::as_ref(d)), <D as AsRef<dyn Shape>>::as_ref(d).sides()), (want, 4));
    r.eq("AsMut<dyn Shape> of a trait-object field is the field itself", (adr(<D as AsMut<dyn Shape>>::as_mut(d)), <D as AsMut<dyn Shape>>::as_mut(d).sides()), (want, 4));
}""" % decl
        cases.append(Case("c%d" % len(cases), mod, meta={"derive": "AsRef+AsMut trait-object field, " + desc, "src": "#[derive(AsRef, AsMut)] " + decl}))
    # forwarding to a foreign type from an unsized field
    mod = """use super::*;
#[derive(derive_more::AsRef, derive_more::AsMut)] #[repr(transparent)] pub struct U(#[as_ref(str)] #[as_mut(str)] pub Tag);
fn mk(s: &mut str) -> &mut U { unsafe { &mut *(s as *mut str as *mut U) } }
pub fn run(r: &mut R) {
    let mut buf = String::from("#abc");
    let u = mk(&mut buf);
    let want = (<Tag as AsRef<str>>::as_ref(&u.0).as_ptr() as usize, 2usize);
    r.eq("AsRef<str> forwards to the unsized field's own impl", (<U as AsRef<str>>::as_ref(u).as_ptr() as usize, <U as AsRef<str>>::as_ref(u).len()), want);
    r.eq("AsMut<str> forwards to the unsized field's own impl", (<U as AsMut<str>>::as_mut(u).as_ptr() as usize, <U as AsMut<str>>::as_mut(u).len()), want);
}"""
    cases.append(Case("c%d" % len(cases), mod, meta={"derive": "AsRef+AsMut unsized field, listed foreign type", "src": "#[derive(AsRef, AsMut)] struct U(#[as_ref(str)] #[as_mut(str)] Tag);"}))
    # `ref` alone picks the by-reference impl only ("You can pick any combination of owned, ref and ref_mut"): it must work for a field
    # that is not iterable by value.  (Was the known finding c14-ref-only-selection-also-generates-owned until /repo 971fb2e.)
    for k, decl in enumerate(("#[into_iterator(ref)] pub struct S(pub OnlyRef);", "pub struct S(#[into_iterator(ref)] pub OnlyRef, pub u8);", "#[into_iterator(ref)] pub struct S { pub a: OnlyRef }",
                              # ... wherever the selection is written, and whatever precedes it
                              "pub struct S(#[into_iterator(ignore)] pub u8, #[into_iterator(ref)] pub OnlyRef);", "pub struct S(pub u8, #[into_iterator(ref)] pub OnlyRef, #[into_iterator(ignore)] pub u8);",
                              # ... also under a different selection on the struct (the field's own selection is the one that counts)
                              "#[into_iterator(owned, ref_mut)] pub struct S(#[into_iterator(ref)] pub OnlyRef);")):
        mod = """use super::*;
#[derive(derive_more::IntoIterator)] %s
pub fn run(r: &mut R) {
    let s = %s;
    r.eq("shared iteration of a field that is only iterable by reference", (&s).into_iter().copied().collect::<Vec<u32>>(), vec![1, 2]);
}""" % (decl, ["S(OnlyRef(vec![1, 2]))", "S(OnlyRef(vec![1, 2]), 0)", "S { a: OnlyRef(vec![1, 2]) }", "S(0, OnlyRef(vec![1, 2]))", "S(0, OnlyRef(vec![1, 2]), 0)", "S(OnlyRef(vec![1, 2]))"][k])
        cases.append(Case("c%d" % len(cases), mod, meta={"derive": "IntoIterator ref only, field not iterable by value", "src": "#[derive(IntoIterator)] " + decl}))
    # a marker on the selected field AND `ignore` on some of the others, in every order (the diagnostic itself suggests: "Try putting
    # #[deref] or #[deref(ignore)] on the fields"): the one marked field is the selected one wherever the ignored ones stand
    for n in (3, 4) if thorough else (3,):
        for sel in range(n):
            for ign in range(n):
                if ign == sel:
                    continue
                for d, attr in (("Deref", "deref"), ("Index", "index"), ("IntoIterator", "into_iterator")):
                    ty, val = {"Deref": ("Inner", lambda i: "inner(%d)" % (10 * (i + 1))), "Index": ("Vec<u32>", lambda i: "vec![%d, %d]" % (i, i + 1)),
                               "IntoIterator": ("Vec<u32>", lambda i: "vec![%d, %d]" % (i, i + 1))}[d]
                    st = St(n, sel, False, False, ty, val)
                    fa = {sel: "#[%s]" % attr, ign: "#[%s(ignore)]" % attr}
                    body = {"Deref": ['r.eq("the marked field is selected", adr(&*s), adr(&%s));' % st.fld()],
                            "Index": ['r.eq("the marked field is selected", adr(&s[1]), adr(&%s[1]));' % st.fld()],
                            "IntoIterator": ['r.eq("the marked field is selected", s.clone().into_iter().collect::<Vec<u32>>(), %s.clone());' % st.fld()]}[d]
                    add("%s marker + ignore elsewhere" % d, st, [], fa, [d], ["let s: SS = %s;" % st.ctor()] + body)
    # raw identifier field names
    for d, attr in (("Deref", "deref"), ("AsRef", "as_ref")):
        st = St(2, 1, True, False, "Inner", lambda i: "inner(%d)" % (10 * (i + 1)), raw=True)
        sa, fa = selection_attrs(attr, st, "mark")
        call = "&*s" if d == "Deref" else "<SS as AsRef<Inner>>::as_ref(&s)"
        add(d + " raw field", st, sa, fa, [d], ["let s: SS = %s;" % st.ctor(), 'r.eq("raw-identifier field", adr(%s), adr(&%s));' % (call, st.fld())])
    return cases


def run(chk, tier):
    thorough = tier == "thorough"
    cases = gen_cases(thorough)
    chk.part("space", fields="1..4" if thorough else "1..3", selected="every position", selection=["implicit", "#[attr] on the field", "#[attr(ignore)] on the others"],
             typings=["other fields of a different type", "all fields of the selected field's type"],
             derives=["Deref", "DerefMut", "AsRef", "AsMut", "Index", "IndexMut", "IntoIterator"],
             modes=["direct", "forward", "listed types (own type literally / via alias / foreign)", "generic field type", "owned/ref/ref_mut"],
             programs=len(cases))
    eng = CompileEngine("C14", prelude=PRELUDE, per_bin=max(8, len(cases) // 16 + 1))
    results = eng.run_cases(cases)
    import re
    for c in cases:
        res = results[c.cid]
        chk.count(states=1, transitions=max(res.ncmp, 1))
        if res.compile == "ok" and res.run == "ok":
            chk.outcome("ok/" + c.meta["derive"])
            chk.sample({"struct": c.meta["src"], "observations": res.ncmp})
            continue
        chk.outcome("%s/%s" % (res.compile, res.run))
        if res.compile != "ok":
            msgs = sorted({re.sub(r"c\d+::", "", d["message"]) for d in res.diags})
            chk.violation("compile-error %s: %s" % (c.meta["derive"], msgs[0][:90]), c.meta["src"], "; ".join(msgs[:4]), known_id=c.meta.get("known"))
        else:
            first = res.detail.split("::", 1)[-1].strip().split(":")[0]
            chk.violation("wrong-result %s: %s" % (c.meta["derive"], first[:70]), c.meta["src"], res.detail)
    chk.part("engine", bins_built=eng.bins_built, rounds=eng.rounds, build_s=round(eng.build_s, 1))
    chk.assumptions += ["the field type's own AsRef<Self>/AsMut<Self> impls deliberately return a different object, so 'the field itself' and 'a forwarded call' are distinguishable"]
