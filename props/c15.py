"""C15 - expansions depend on no name from the caller's scope (DESIGN.md §3 C15).

Every (derive, documented template) of C01's support table, on the non-generic and one generic signature, is placed
(1) in a `#[no_implicit_prelude]` module that only imports `::derive_more` and the helper types the *user's own
tokens* mention, and (2) in a module in which every prelude name is a local item of the wrong kind and the std
macros an expansion might call are local `macro_rules!`."""
import re

import c01
from compile_engine import Case, CompileEngine

SHADOW_TYPES = ["Result", "Option", "String", "Vec", "Box", "Ok", "Err", "Some", "None", "Default", "Iterator", "Sized", "Send", "Sync", "Copy", "Clone",
                "Drop", "Fn", "FnMut", "FnOnce", "ToString", "ToOwned", "Eq", "Ord", "PartialOrd", "Self_", "Formatter", "Arguments", "Error", "TryFromReprError",
                "FromStrError", "UnitError", "BinaryError", "TryIntoError", "TryUnwrapError", "WrongVariantError"]
SHADOW_TRAITS = ["Debug", "Display", "Binary", "Octal", "LowerHex", "UpperHex", "LowerExp", "UpperExp", "Pointer", "From", "Into", "TryFrom", "TryInto", "AsRef", "AsMut",
                 "Deref", "DerefMut", "Index", "IndexMut", "IntoIterator", "FromStr", "Add", "Sub", "Mul", "Div", "Rem", "Shl", "Shr", "BitAnd", "BitOr", "BitXor", "Not", "Neg",
                 "AddAssign", "SubAssign", "MulAssign", "DivAssign", "RemAssign", "ShlAssign", "ShrAssign", "BitAndAssign", "BitOrAssign", "BitXorAssign", "Sum", "Product",
                 "AsDynError", "ExtractRef"]
SHADOW_MACROS = ["panic", "write", "writeln", "format_args", "format", "matches", "stringify", "unreachable", "unimplemented", "assert", "concat", "vec", "todo"]


def hostile_scope2():
    out = []
    for t in SHADOW_TYPES:
        out.append("#[allow(dead_code)] pub struct %s;" % t)
    for t in SHADOW_TRAITS:
        out.append("#[allow(dead_code)] pub trait %s { fn shadow(&self) {} }" % t)
    for m in SHADOW_MACROS:
        out.append("#[allow(unused_macros)] macro_rules! %s { ($($t:tt)*) => { compile_error!(\"local macro `%s` was invoked by an expansion\") } }" % (m, m))
    # a local `core`/`std`/`alloc` module must not capture `derive_more::core::..` style paths either (they are rooted at derive_more)
    out.append("#[allow(dead_code)] pub mod core {} #[allow(dead_code)] pub mod std {} #[allow(dead_code)] pub mod alloc {}")
    return "\n".join(out)


STD_METHODS = ["add", "sub", "mul", "div", "rem", "shl", "shr", "bitand", "bitor", "bitxor", "not", "neg", "add_assign", "sub_assign", "mul_assign", "div_assign", "rem_assign",
               "shl_assign", "shr_assign", "bitand_assign", "bitor_assign", "bitxor_assign", "sum", "product", "fold", "fmt", "from", "into", "try_from", "try_into", "as_ref", "as_mut",
               "deref", "deref_mut", "index", "index_mut", "into_iter", "from_str", "source", "provide"]
# (methods of the TRAITS the derives implement by delegating to the fields' impls - the external items the property is about; inherent
# helpers of std types such as `str::to_lowercase` / `String::as_str`, which FromStr's expansion calls on its own `&str`, are not in it)


def hostile_scope3():
    """A local trait, implemented for every type, that declares by-value methods named like the methods of the std traits the
    derives implement by delegation.  `Trait::method(x)` does not see it; `x.method()` on anything but an inherent method becomes
    ambiguous (E0034) or resolves to it."""
    return "#[allow(dead_code)] pub trait Colliding: ::core::marker::Sized { %s }\nimpl<T> Colliding for T {}" % " ".join("fn %s(self) {}" % m for m in STD_METHODS)


BINDING_NAMES = ["rhs", "src", "value", "iter", "idx", "val", "conv", "other", "source", "fx", "y", "field_0", "field_1", "_0", "_1", "__0", "__1", "__l_0", "__r_0", "f", "fmt", "request"]


def hostile_scope4():
    """Lower-case constants named like the local bindings expansions introduce (function parameters, pattern bindings, field names): an
    identifier PATTERN that has a constant of its name in scope is a constant pattern, so the binding silently becomes a comparison."""
    return "\n".join("#[allow(non_upper_case_globals, dead_code)] pub const %s: super::super::Cn = super::super::Cn;" % n for n in BINDING_NAMES)


def run(chk, tier):
    thorough = tier == "thorough"
    tab = c01.table()
    gens = [g for g in c01.GENS if g["name"] in (("none", "lt_ty_const", "full") if thorough else ("none", "full"))]
    cases = []
    for derive, tmpls in tab.items():
        for ti, tmpl in enumerate(tmpls):
            for g in gens:
                inst = c01.instantiate(tmpl, g, ("Sx", "Aa", "fx"), "none")
                if inst is None:
                    continue
                real, twin = inst
                if re.search(r"\b(Vec|Option|Box|HashMap|IntoIterator|Sized|String)\b", real):
                    continue   # user-written tokens naming prelude items: they are the user's to resolve, not the expansion's
                # std's own derives in the scaffolding are spelled with absolute paths so that only derive_more's output is under test
                real = real.replace("#[derive(Debug, derive_more::Display)]", "#[derive(::core::fmt::Debug, derive_more::Display)]")
                item = "#[derive(derive_more::%s)] %s" % (derive, real)
                item = item.replace(": Clone)", ": ::core::clone::Clone)")   # a user-written bound: spell it absolutely
                uses = "#[allow(unused_imports)] use ::derive_more; #[allow(unused_imports)] use super::super::{H, Tr, Tr2, We}; #[allow(unused_imports)] use ::core::marker::PhantomData;"
                uses2 = "#[allow(unused_imports)] use super::super::{H, Tr, Tr2, We}; #[allow(unused_imports)] use ::core::marker::PhantomData;"
                for scope, body in (("no_prelude", "#[no_implicit_prelude]\npub mod m {\n    %s\n    %s\n}" % (uses, item)),
                                    ("shadowed", "pub mod m {\n    %s\n    %s\n    %s\n}" % (uses2, hostile_scope2(), item)),
                                    ("colliding_methods", "pub mod m {\n    %s\n    %s\n    %s\n}" % (uses2, hostile_scope3(), item)),
                                    ("binding_names_as_constants", "pub mod m {\n    %s\n    %s\n    %s\n}" % (uses2, hostile_scope4(), item))):
                    if scope == "binding_names_as_constants" and g["name"] != "none":
                        continue
                    cases.append(Case("c%d" % len(cases), "#[allow(unused_imports)] use super::*;\n" + body, has_run=False,
                                      meta=dict(derive=derive, scope=scope, gen=g["name"], src=item)))
    # fifth scope: local types named like the primitive types the expansions themselves spell (`bool`, `str`, the repr integers).  Hand-placed
    # items whose own tokens name no primitive; std's derives on the same items compile in this scope (checked by the control line)
    prim = "\n".join("#[allow(non_camel_case_types, dead_code)] pub struct %s;" % n for n in ("bool", "str", "isize", "usize", "u8", "i8", "u16", "i32", "u64", "char", "f64"))
    for derive, item in (("IsVariant", "pub enum S { A, B(super::super::H<(), 1>) }"), ("IsVariant", "pub enum S<T> { A(T), B }"), ("FromStr", "pub enum S { A, B }"), 
                         ("TryFrom", "#[try_from(repr)] pub enum S { A, B }"), ("TryFrom", "#[try_from(repr)] #[repr(u8)] pub enum S { A = 1, B }"), ("TryFrom", "#[try_from(repr)] #[repr(i32)] pub enum S { A = -1, B, Cc(super::super::H<(), 1>) }"),
                         ("Unwrap", "pub enum S { A(super::super::H<(), 1>), B }"), ("TryUnwrap", "pub enum S { A(super::super::H<(), 1>), B }"), ("Display", "#[display(\"x\")] pub struct S;"),
                         ("Debug", "pub struct S { a: super::super::H<(), 1> }"), ("Constructor", "pub struct S(super::super::H<(), 1>);"), ("Not", "pub enum S { A(super::super::H<(), 1>), B }"), ("Add", "pub enum S { A(super::super::H<(), 1>), B }")):
        body = "pub mod m {\n    %s\n    #[derive(::core::clone::Clone, ::core::cmp::PartialEq, ::core::fmt::Debug, ::core::hash::Hash)] pub enum Control { A, B }\n    #[derive(derive_more::%s)] %s\n}" % (prim, derive, item)
        cases.append(Case("c%d" % len(cases), "#[allow(unused_imports)] use super::*;\n" + body, has_run=False, meta=dict(derive=derive, scope="primitive_names_shadowed", gen="none", src="#[derive(derive_more::%s)] %s" % (derive, item))))
    chk.part("space", programs=len(cases), derives=len(tab), scopes=["#[no_implicit_prelude] + `use ::derive_more;`", "every prelude type/variant/trait name and std macro shadowed by a local item", "a local blanket trait with by-value methods named like %d std trait methods" % len(STD_METHODS), "lower-case constants named like the bindings of the expansions (known finding)", "local types named like the primitive types (bool, str, the integers)"],
             shadowed_names=len(SHADOW_TYPES) + len(SHADOW_TRAITS) + len(SHADOW_MACROS) + 3, generics=[g["name"] for g in gens])
    eng = CompileEngine("C15", header=c01.HEADER, prelude=c01.PRELUDE, mode="check", per_bin=max(20, len(cases) // 16 + 1))
    results = eng.run_cases(cases)
    for c in cases:
        r = results[c.cid]
        chk.count(states=1, transitions=1)
        if r.compile == "ok":
            chk.outcome("compiles/" + c.meta["scope"])
            if c.meta["gen"] != "none":
                chk.sample({"program": c.meta["src"], "scope": c.meta["scope"], "verdict": "compiles"})
            continue
        chk.outcome("%s/%s" % (r.compile, c.meta["scope"]))
        msgs = [re.sub(r"c\d+::m::", "", d["message"]) for d in r.diags]
        names = sorted(set(re.findall(r"`(\w+)`", " ".join(msgs))) & set(SHADOW_TYPES + SHADOW_TRAITS + SHADOW_MACROS + ["Option", "Some", "None", "Ok", "Err", "Result"]))
        # known finding: every failure in the scope whose only hostility is constants named like bindings belongs to one recorded class
        kid = "c15-binding-captured-by-caller-constant" if c.meta["scope"] == "binding_names_as_constants" else None
        chk.violation("derive(%s) in %s scope: depends on caller's %s" % (c.meta["derive"], c.meta["scope"], ",".join(names) or msgs[0][:60]), c.meta["src"],
                      "; ".join(msgs[:4]) + "\n" + r.diags[0]["rendered"][:900], known_id=kid)
    chk.part("engine", bins_built=eng.bins_built, rounds=eng.rounds, build_s=round(eng.build_s, 1))
    chk.assumptions += ["user-written tokens (field types, bounds, std derives in the scaffolding) are given explicit imports / absolute paths, so every remaining unresolved or mis-resolved name comes from a derive_more expansion",
                        "behavioural identity is implied by identical expansions (the expansion text does not depend on the scope); only compilation is checked here"]
