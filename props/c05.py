"""C05 - caller's formatting flags pass through exactly for bare-placeholder formats (DESIGN.md §3 C05)."""
import itertools

from compile_engine import Case, CompileEngine

LETTER = {"Display": "", "Debug": "?", "Binary": "b", "Octal": "o", "LowerHex": "x", "UpperHex": "X", "LowerExp": "e", "UpperExp": "E", "Pointer": "p"}
ATTR = {"Display": "display", "Debug": "debug", "Binary": "binary", "Octal": "octal", "LowerHex": "lower_hex", "UpperHex": "upper_hex",
        "LowerExp": "lower_exp", "UpperExp": "upper_exp", "Pointer": "pointer"}
BY_LETTER = {v: k for k, v in LETTER.items()}


def outer_specs():
    specs = []
    for fa in ["", "<", "^", ">", "*<", "*^", "*>"]:
        for sign in ["", "+"]:
            for alt in ["", "#"]:
                for zero in ["", "0"]:
                    for width in ["", "8"]:
                        for prec in ["", ".3"]:
                            specs.append(fa + sign + alt + zero + width + prec)
    return specs


def prelude():
    out = [r'''
pub static A0: i32 = 0; pub static A1: i32 = -7; pub static A2: i32 = 123456;
pub fn ivals() -> [&'static i32; 3] { [&A0, &A1, &A2] }
''']
    specs = outer_specs()
    for tr, letter in LETTER.items():
        lines = ", ".join('format!("{:%s%s}", *t)' % (s, letter) for s in specs)
        out.append("pub fn grid_%s<T: ::core::fmt::%s>(t: &T) -> Vec<String> { vec![%s] }" % (tr.lower(), tr, lines))
    out.append("pub const NSPECS: usize = %d;" % len(specs))
    return "\n".join(out)


def lit_rs(s):
    return '"' + s.replace("\\", "\\\\").replace('"', '\\"') + '"'


class Container:
    """kind: tuple1 | named1 | tuple2 (attribute refers to field `sel`) | variant1 | variant2"""

    def __init__(self, kind):
        self.kind = kind
        self.n = 2 if kind.endswith("2") else 1
        self.named = kind.startswith("named")
        self.names = (["x", "y"] if self.named else ["_0", "_1"])[:self.n]
        if kind == "namedraw1":   # raw-identifier field: `r#type` in Rust code, `type` inside a format literal
            self.names = ["r#type"]
        self.lnames = [a[2:] if a.startswith("r#") else a for a in self.names]
        self.enum = kind.startswith("variant")

    def item(self, derive, attr_text):
        ty = "&'static i32"
        fields = ("{ %s }" % ", ".join("%s: %s" % (a, ty) for a in self.names)) if self.named else "(%s)" % ", ".join(ty for _ in self.names)
        if self.enum:
            return "#[derive(derive_more::%s)] pub enum T { %s V%s, #[%s(\"w\")] W }" % (derive, attr_text, fields, ATTR[derive])
        return "#[derive(derive_more::%s)] %s pub struct T%s%s" % (derive, attr_text, fields, "" if self.named else ";")

    def bind_refs(self):
        """binds f0, f1 as references to the value's own fields (what an argument expression sees)"""
        if self.enum:
            pat = ("T::V { %s }" % ", ".join("%s: f%d" % (a, i) for i, a in enumerate(self.names))) if self.named else "T::V(%s)" % ", ".join("f%d" % i for i in range(self.n))
            return "let (%s,) = match &t { %s => (%s,), _ => unreachable!() };" % (", ".join("f%d" % i for i in range(self.n)), pat, ", ".join("f%d" % i for i in range(self.n)))
        return " ".join("let f%d = &t.%s;" % (i, a if self.named else str(i)) for i, a in enumerate(self.names))

    def ctor(self, vals):
        path = "T::V" if self.enum else "T"
        if self.named:
            return "%s { %s }" % (path, ", ".join("%s: %s" % (a, v) for a, v in zip(self.names, vals)))
        return "%s(%s)" % (path, ", ".join(vals))


def gen_cases(thorough):
    cases = []
    containers = ["tuple1", "named1", "namedraw1", "tuple2", "variant1", "variant2"] + (["named2"] if thorough else [])
    derives = ["Display", "LowerHex", "Pointer", "Debug"] + (["Binary", "Octal", "UpperHex", "LowerExp", "UpperExp"] if thorough else ["UpperExp"])

    def add(derive, cont, attr_args, expect, arg_expr=None, ptrait=None, desc=""):
        """expect: pass | inert | fail.  arg_expr: Rust expr (in terms of v0,v1: &'static i32) the flags must apply to."""
        c = Container(cont)
        attr_text = "#[%s(%s)]" % (ATTR[derive], attr_args) if attr_args is not None else ""
        item = c.item(derive, attr_text)
        loops_open = "".join("for v%d in ivals() { " % i for i in range(c.n))
        loops_close = "}" * c.n
        ctor = c.ctor(["v%d" % i for i in range(c.n)])
        if expect == "pass":
            binds = c.bind_refs()
            body = '%s let t = %s; %s r.eq(%s, grid_%s(&t), grid_%s(&(%s))); %s' % (
                loops_open, ctor, binds, lit_rs("flags must apply to the argument under " + ptrait), derive.lower(), ptrait.lower(), arg_expr, loops_close)
        elif expect == "inert":
            body = '%s let t = %s; let plain = format!("{:%s}", t); r.eq(%s, grid_%s(&t), vec![plain; NSPECS]); %s' % (
                loops_open, ctor, LETTER[derive], lit_rs("caller's flags must leave the output unchanged"), derive.lower(), loops_close)
        else:
            body = "let _ = %s;" % c.ctor(["&A0"] * c.n)
        mod = "use super::*;\n%s\npub fn run(r: &mut R) {\n    %s\n}" % (item, body)
        cases.append(Case("c%d" % len(cases), mod, expect="fail" if expect == "fail" else "ok", has_run=expect != "fail",
                          meta={"src": " ".join(item.split()), "expect": expect, "desc": desc, "derive": derive}))

    for derive in derives:
        for cont in containers:
            c = Container(cont)
            f0 = c.names[0]
            last = c.names[-1]
            llast = c.lnames[-1]
            # (a) no attribute on a single-field type: Display-like only
            if c.n == 1 and derive != "Debug":
                add(derive, cont, None, "pass", "*f0", derive, "implicit single field")
            for letter, ptrait in BY_LETTER.items():
                if not thorough and ptrait not in ("Display", "Debug", "LowerHex", "Pointer", derive):
                    continue
                sp = (":" + letter) if letter else ""
                # field by name, no arguments
                add(derive, cont, lit_rs("{%s%s}" % (llast, sp)), "pass", "*f%d" % (c.n - 1), ptrait, "bare, field by name")
                # one positional argument (implicit and explicit index 0)
                add(derive, cont, lit_rs("{%s}" % sp) + ", " + last, "pass", "f%d" % (c.n - 1), ptrait, "bare, implicit index, one argument")
                add(derive, cont, lit_rs("{0%s}" % sp) + ", " + f0, "pass", "f0", ptrait, "bare, index 0, one argument")
                # one named argument, matching name
                add(derive, cont, lit_rs("{a%s}" % sp) + ", a = " + last, "pass", "f%d" % (c.n - 1), ptrait, "bare, matching alias")
                # the only argument may be written `name = expr` and still be referred to by position
                add(derive, cont, lit_rs("{%s}" % sp) + ", a = " + last, "pass", "f%d" % (c.n - 1), ptrait, "bare, implicit index, one named argument")
                add(derive, cont, lit_rs("{0%s}" % sp) + ", a = " + f0, "pass", "f0", ptrait, "bare, index 0, one named argument")
                # a named argument may be called like a keyword (`format!("{type}", type = x)` is fine with std)
                add(derive, cont, lit_rs("{type%s}" % sp) + ", type = " + last, "pass", "f%d" % (c.n - 1), ptrait, "bare, matching alias that is a keyword")
                # a trailing comma (after the literal, after the only argument) changes nothing
                add(derive, cont, lit_rs("{%s%s}" % (llast, sp)) + ",", "pass", "*f%d" % (c.n - 1), ptrait, "bare, field by name, trailing comma after the literal")
                add(derive, cont, lit_rs("{0%s}" % sp) + ", " + f0 + ",", "pass", "f0", ptrait, "bare, index 0, trailing comma after the argument")
                add(derive, cont, lit_rs("{a%s}" % sp) + ", a = " + last + ",", "pass", "f%d" % (c.n - 1), ptrait, "bare, matching alias, trailing comma")
                # std::fmt allows whitespace after the argument and before the closing brace: still one bare placeholder
                add(derive, cont, lit_rs("{%s %s}" % (llast, sp)), "pass", "*f%d" % (c.n - 1), ptrait, "bare, field by name, whitespace after the argument")
                add(derive, cont, lit_rs("{0 %s}" % sp) + ", " + f0, "pass", "f0", ptrait, "bare, index 0, whitespace after the argument")
                add(derive, cont, lit_rs("{%s%s  }" % (llast, sp)), "pass", "*f%d" % (c.n - 1), ptrait, "bare, field by name, whitespace before the closing brace")
                # ... any whitespace, not only U+0020 (written with Rust escapes so that the program keeps its line structure)
                add(derive, cont, '"{%s\\t%s}"' % (llast, sp), "pass", "*f%d" % (c.n - 1), ptrait, "bare, field by name, tab after the argument")
                add(derive, cont, '"{%s%s\\n}"' % (llast, sp), "pass", "*f%d" % (c.n - 1), ptrait, "bare, field by name, newline before the closing brace")
                add(derive, cont, '"{0\\u{a0}%s}"' % sp + ", " + f0, "pass", "f0", ptrait, "bare, index 0, no-break space after the argument")
                if ptrait != "Pointer":
                    # expression argument
                    add(derive, cont, lit_rs("{%s}" % sp) + ", %s.wrapping_add(1)" % f0, "pass", "v0.wrapping_add(1)", ptrait, "bare, expression argument")
                # index not denoting an existing argument: must not compile
                add(derive, cont, lit_rs("{1%s}" % sp) + ", " + f0, "fail", desc="index 1 with one argument")
                add(derive, cont, lit_rs("{7%s}" % sp) + ", " + f0, "fail", desc="index 7 with one argument")
            # inert: any modifier, text, escapes, several placeholders, hex-debug
            inert_lits = ["{%s:>8}", "{%s:*<}", "{%s:+}", "{%s:#}", "{%s:0}", "{%s:8}", "{%s:.3}", "{%s:x?}", "{%s:X?}", "a{%s}", "{%s} ", "{{{%s}}}",
                          "{%s}{%s}", "{%s:#x}", "{%s:>1$}"]
            for il in inert_lits:
                if il == "{%s:>1$}":
                    add(derive, cont, lit_rs("{0:>1$}") + ", %s, 6usize" % f0, "inert", desc="width argument")
                    continue
                lit = il.replace("%s", llast)
                add(derive, cont, lit_rs(lit), "inert", desc="inert: " + il)
                if il in ("{%s:>8}", "a{%s}", "{%s:x?}"):
                    add(derive, cont, lit_rs(il.replace("%s", "0")) + ", " + last, "inert", desc="inert (positional): " + il)
            add(derive, cont, lit_rs("text only"), "inert", desc="no placeholder")
    # (u) unions: the attribute is mandatory and its arguments reach the fields through `self`; a bare placeholder still delegates
    for derive in derives:
        if derive == "Debug":
            continue     # derive(Debug) does not take unions
        for letter, ptrait in BY_LETTER.items():
            if not thorough and ptrait not in ("Display", "LowerHex", derive):
                continue
            sp = (":" + letter) if letter else ""
            for lit, args, exp, desc in ((lit_rs("{%s}" % sp), "unsafe { self.i }", "pass", "bare, implicit index"), (lit_rs("{0%s}" % sp), "unsafe { self.i }", "pass", "bare, index 0"),
                                         (lit_rs("{a%s}" % sp), "a = unsafe { self.i }", "pass", "bare, alias"), (lit_rs("<{%s}>" % sp), "unsafe { self.i }", "inert", "with text"),
                                         (lit_rs("{:>8%s}" % letter), "unsafe { self.i }", "inert", "own width")):
                if ptrait == "Pointer" and exp == "pass":
                    arg = "unsafe { t.i }"     # `{:p}` of the reference the field holds
                else:
                    arg = "unsafe { t.i }"
                item = "#[derive(derive_more::%s)] #[%s(%s, %s)] pub union T { i: &'static i32 }" % (derive, ATTR[derive], lit, args)
                if exp == "pass":
                    body = 'for v0 in ivals() { let t = T { i: v0 }; r.eq(%s, grid_%s(&t), grid_%s(&(%s))); }' % (
                        lit_rs("flags must apply to the argument under " + ptrait), derive.lower(), ptrait.lower(), arg)
                else:
                    body = 'for v0 in ivals() { let t = T { i: v0 }; let plain = format!("{:%s}", t); r.eq(%s, grid_%s(&t), vec![plain; NSPECS]); }' % (
                        LETTER[derive], lit_rs("caller's flags must leave the output unchanged"), derive.lower())
                mod = "use super::*;\n%s\npub fn run(r: &mut R) {\n    %s\n}" % (item, body)
                cases.append(Case("c%d" % len(cases), mod, expect="ok", has_run=True, meta={"src": " ".join(item.split()), "expect": exp, "desc": "union: " + desc, "derive": derive}))
    # (e) ENUM-level attributes.  A bare `{_variant}` is a Display placeholder: under derive(Display) it is "as if absent", so the
    # flags reach whatever the variant itself delegates to; under any other derive the variant's text is not a Display argument and the
    # attribute is an ordinary (inert) format.  A non-wrapping enum-level literal is the format of the variants without their own one.
    def add_enum(derive, shared, own, expect, arg_expr=None, ptrait=None, desc=""):
        c = Container("variant1")
        at = ATTR[derive]
        item = "#[derive(derive_more::%s)] #[%s(%s)] pub enum T { %s V(&'static i32), #[%s(\"w\")] W }" % (derive, at, shared, ("#[%s(%s)]" % (at, own)) if own else "", at)
        if expect == "pass":
            body = 'for v0 in ivals() { let t = T::V(v0); %s r.eq(%s, grid_%s(&t), grid_%s(&(%s))); }' % (
                c.bind_refs(), lit_rs("flags must apply to the argument under " + ptrait), derive.lower(), ptrait.lower(), arg_expr)
        else:
            body = 'for v0 in ivals() { let t = T::V(v0); let plain = format!("{:%s}", t); r.eq(%s, grid_%s(&t), vec![plain; NSPECS]); }' % (
                LETTER[derive], lit_rs("caller's flags must leave the output unchanged"), derive.lower())
        mod = "use super::*;\n%s\npub fn run(r: &mut R) {\n    %s\n}" % (item, body)
        cases.append(Case("c%d" % len(cases), mod, expect="ok", has_run=True,
                          meta={"src": " ".join(item.split()), "expect": expect, "desc": "enum-level " + desc, "derive": derive}))

    pure = ['"{_variant}"', '"{}", _variant', '"{0}", _variant', '"{v}", v = _variant', '"{_variant }"']
    wrapping = ['"<{_variant}>"', '"{_variant}{_variant}"', '"{_variant} "', '"{{}}{_variant}"']
    owns = [(None, "pass", "Display"), ('"{_0}"', "pass", "Display"), ('"{_0:x}"', "pass", "LowerHex"), ('"a{_0}"', "inert", None), ('"{_0:>8}"', "inert", None)]
    for derive in derives:
        if derive == "Debug":
            continue    # an enum-level format attribute on Debug is rejected (C07)
        for sh in pure:
            for own, exp, ptrait in owns:
                if derive == "Display":
                    add_enum(derive, sh, own, exp, "*f0", ptrait if own else derive, "bare `_variant` under Display, variant: %s" % (own or "no attribute"))
                else:
                    add_enum(derive, sh, own, "inert", desc="bare `_variant` under a non-Display derive, variant: %s" % (own or "no attribute"))
        for sh in wrapping:
            for own, _, _ in owns[:3]:
                add_enum(derive, sh, own, "inert", desc="wrapping literal with text, variant: %s" % (own or "no attribute"))
        for letter, ptrait in BY_LETTER.items():
            if not thorough and ptrait not in ("Display", "LowerHex", derive):
                continue
            sp = (":" + letter) if letter else ""
            add_enum(derive, lit_rs("{_0%s}" % sp), None, "pass", "*f0", ptrait, "default literal, bare, field by name")
            add_enum(derive, lit_rs("{_0%s}" % sp), '"{_0}"', "pass", "*f0", "Display", "default literal overridden by the variant's own bare one")
            add_enum(derive, lit_rs("{_0%s}" % sp), '"a{_0}"', "inert", desc="default literal overridden by the variant's own inert one")
            add_enum(derive, lit_rs("a{_0%s}" % sp), None, "inert", desc="default literal with text")
            if ptrait != "Pointer":
                add_enum(derive, lit_rs("{%s}" % sp) + ", _0", None, "pass", "f0", ptrait, "default literal, bare, one argument")
    return cases


def run(chk, tier):
    thorough = tier == "thorough"
    cases = gen_cases(thorough)
    chk.part("space", programs=len(cases), outer_specs=len(outer_specs()),
             grid="fill{none,*} x align{none,<,^,>} x sign{none,+} x # x 0 x width{none,8} x precision{none,.3} (fill only with an alignment)",
             containers=["newtype tuple/named", "two-field struct", "enum variant (1 and 2 fields)", "enum with an enum-level attribute (bare/wrapping `_variant`, default literal) x variant's own attribute"],
             literal_classes=["no attribute (single field)", "bare placeholder x 9 traits x {field by name, implicit/index 0 + one argument, matching alias, expression}",
                              "index 1 / 7 with one argument (must not compile)", "each modifier kind, x?/X?, text, escapes, two placeholders, width argument, text only (inert)"],
             values="3 per field")
    eng = CompileEngine("C05", prelude=prelude(), per_bin=max(8, len(cases) // 16 + 1))
    results = eng.run_cases(cases)
    import re
    nspecs = len(outer_specs())
    for c in cases:
        res = results[c.cid]
        chk.count(states=1, transitions=max(res.ncmp, 1) * (nspecs if c.meta["expect"] != "fail" else 1))
        exp = c.meta["expect"]
        if exp == "fail":
            if res.compile == "error":
                chk.outcome("rejected-as-required")
                continue
            chk.outcome("compiled-but-must-not")
            chk.violation("delegates although the index denotes no argument (%s)" % c.meta["derive"], c.meta["src"], "the program compiled; expected a compile error at the attribute")
            continue
        if res.compile == "ok" and res.run == "ok":
            chk.outcome("%s/%s" % (exp, c.meta["derive"]))
            chk.sample({"type": c.meta["src"], "expect": exp, "grid_entries_compared": nspecs * max(res.ncmp, 1)})
            continue
        chk.outcome("%s-%s/%s" % (exp, res.compile, res.run))
        if res.compile != "ok":
            msgs = sorted({re.sub(r"c\d+::", "", d["message"]) for d in res.diags})
            chk.violation("compile-error (%s) %s: %s" % (exp, c.meta["derive"], msgs[0][:80]), c.meta["src"], "; ".join(msgs[:4]))
        else:
            chk.violation("%s violated: %s (%s)" % ("pass-through" if exp == "pass" else "inertness", c.meta["desc"].split(":")[0], c.meta["derive"]), c.meta["src"], res.detail[:1500])
    chk.part("engine", bins_built=eng.bins_built, rounds=eng.rounds, build_s=round(eng.build_s, 1))
    chk.assumptions += ["the field type &'static i32 implements all nine formatting traits, so every (derived trait, placeholder trait) combination is expressible",
                        "values are 3 representatives per field; flags act on std's own impls for i32/&i32, which are the reference"]
