#!/bin/bash
# usage: tools/confirm_seed2.sh <worktree> <A|B> <seed-id> <PROP> [PROP...]
# Round-2 layout: <worktree>/seed/<A|B>/{patch.diff,demo.rs,meta.json}, demo test target seed_demo_<a|b>; worktree sources clean.
W="$1"; X="$2"; ID="$3"; shift 3
x=$(echo "$X" | tr 'AB' 'ab')
OUT=/verif/seeded/$ID; mkdir -p $OUT
cp $W/seed/$X/patch.diff $OUT/patch.diff; cp $W/seed/$X/meta.json $OUT/agent_meta.json 2>/dev/null
for f in demo.rs demo.sh; do [ -f $W/seed/$X/$f ] && cp $W/seed/$X/$f $OUT/$f; done
[ -d $W/seed/$X/demo ] && rsync -a --exclude target --exclude Cargo.lock $W/seed/$X/demo $OUT/
export CARGO_TARGET_DIR=$W/target CARGO_NET_OFFLINE=true
cd $W
git checkout -q -- impl src 2>/dev/null
demo() { if [ -f tests/seed_demo_$x.rs ]; then O=$(cargo test --offline --features full --test seed_demo_$x 2>&1); R=$(echo "$O" | grep -E "^test result" | tail -1); [ -z "$R" ] && R="DOES NOT COMPILE: $(echo "$O" | grep -E "^error" | head -2 | tr '\n' ' ')"; echo "$R"; elif [ -f seed/$X/demo.sh ]; then sh seed/$X/demo.sh >/dev/null 2>&1; echo "demo.sh exit=$?"; else echo "no demo found"; fi; }
WITHOUT=$(demo)
git apply seed/$X/patch.diff || { echo "PATCH DOES NOT APPLY"; exit 3; }
WITH=$(demo)
cp Cargo.toml Cargo.toml.seedbak; mkdir -p /tmp/seedbak_$ID; mv tests/seed_demo*.rs /tmp/seedbak_$ID/ 2>/dev/null
git checkout -q -- Cargo.toml
SUITE=$(cargo test --workspace --no-fail-fast --offline 2>&1 | grep -E "^test result|^test .* FAILED|^error" | grep -v "^test result: ok" | tr '\n' ';')
mv Cargo.toml.seedbak Cargo.toml; mv /tmp/seedbak_$ID/*.rs tests/ 2>/dev/null; rmdir /tmp/seedbak_$ID 2>/dev/null
echo "demo with patch:    $WITH"; echo "demo without patch: $WITHOUT"; echo "suite non-ok lines with patch: $SUITE"
RES=""
for P in "$@"; do
  O=$(/verif/tools/mutrun.sh $W $P quick 2>&1); RC=$?
  echo "$P rc=$RC $(echo "$O" | grep -E "^$P quick:" | tail -1)"; echo "$O" | grep -E "signature" | head -3
  RES="$RES\"$P\": {\"rc\": $RC, \"first_signature\": $(echo "$O" | grep -E "signature" | head -1 | python3 -c 'import json,sys; print(json.dumps(sys.stdin.read().strip()[:300]))')}, "
done
git apply -R seed/$X/patch.diff
python3 - "$OUT" "$WITH" "$WITHOUT" "$SUITE" "{${RES%, }}" <<'PY'
import json, sys, os
out, w, wo, suite, res = sys.argv[1:6]
am = {}
try: am = json.load(open(os.path.join(out, "agent_meta.json")))
except Exception: pass
meta = {"property": am.get("property"), "summary": am.get("summary"), "needs": am.get("needs"), "files": am.get("files"),
        "confirmed": {"demo_with_patch": w, "demo_without_patch": wo, "suite_non_ok_with_patch": suite or "none"},
        "ran": "tools/confirm_seed2.sh: demo with and without the patch, full repository suite with the patch (demo scaffolding removed), then the listed checks via tools/mutrun.sh (quick tier) against the patched scratch worktree",
        "checks": json.loads(res)}
json.dump(meta, open(os.path.join(out, "meta.json"), "w"), indent=1)
PY
