#!/usr/bin/env python3
"""Prints the markdown detection table for the seeds of a round (default 2) from /verif/seeded/*/meta.json."""
import glob, json, os, sys
rnd = int(sys.argv[1]) if len(sys.argv) > 1 else 2
print("| seed | prop | change | needs | caught as built | caught after strengthening | strengthening |")
print("|---|---|---|---|---|---|---|")
tot = miss = 0
for p in sorted(glob.glob(os.path.join(os.path.dirname(os.path.abspath(__file__)), "..", "seeded", "*", "meta.json"))):
    m = json.load(open(p))
    d = m.get("detection", {})
    if d.get("round", 1) != rnd:
        continue
    tot += 1
    own = m.get("property")
    cb = d.get("caught_by") or []
    if own not in cb:
        miss += 1
    cell = lambda s, n: (s or "").replace("|", "\\|").replace("\n", " ")[:n]
    print("| %s | %s | %s | %s | %s | %s | %s |" % (os.path.basename(os.path.dirname(p)), own, cell(m.get("summary"), 160), cell(m.get("needs"), 140),
          ", ".join(cb) or "-", ", ".join(d.get("caught_by_after") or []) or "-", cell(d.get("strengthened"), 200)))
print("\n%d seeds; %d not caught by their own property's check as built" % (tot, miss))
