#!/bin/sh
# usage: tools/run_all.sh [quick|thorough]  -- runs every registered check, prints one line each
T="${1:-quick}"
cd "$(dirname "$0")/.."
rc_all=0
for p in C01 C02 C03 C04 C05 C06 C07 C08 C09 C10 C11 C12 C13 C14 C15 C16 C17 C18 C19 C20; do
  out=$(python3 run_check.py $p --tier $T 2>&1); rc=$?
  echo "$p rc=$rc $(echo "$out" | grep -E "^$p $T:" | tail -1)"
  if [ $rc -ne 0 ]; then rc_all=1; echo "$out" | grep -E "VIOLATION|MACHINERY|signature" | head -5; fi
done
exit $rc_all
