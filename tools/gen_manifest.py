#!/usr/bin/env python3
"""Writes /verif/MANIFEST.json from the table below (kept here so the manifest stays consistent)."""
import json
import os

HERE = os.path.dirname(os.path.dirname(os.path.abspath(__file__)))

CHECKS = {
    "C12": dict(
        technique="bounded exhaustive enumeration of enum definitions (variant-kind sequences x discriminant expressions x reprs x generics) compiled with the real proc-macro; for each, every integer of the repr (8/16-bit) or all discriminant neighbours+extremes is tried against rustc's own `as` casts on a twin enum",
        text="Small-scope exhaustive exploration: the full product of the stated alphabets up to the stated sequence length is compiled and executed; try_from is compared with the cast-derived reference on every integer of the domain. The reference is rustc's own discriminant assignment (twin enum), not a model of mine.",
        note="Trusted: rustc's `as` cast on the unit-only twin enum; the masking-fixpoint attribution of diagnostics (canaries planted in every run). Bounds: sequences up to length 2 (quick) / 3 (thorough); value domain exhaustive only for 8/16-bit reprs.",
        design_ref="DESIGN.md §3 C12", engine="compile"),
    "C10": dict(
        technique="bounded exhaustive enumeration of struct/enum shapes x all 24 operator derives x forward modes, executed on a free-term-algebra operand type; every ordered pair of variant values for enums; result terms compared with the field-wise law",
        text="Small-scope exhaustive exploration of type shapes with an uninterpreted (term-building) operand type: the result of every derived operator call is compared structurally with op(lhs.i, rhs.i) for every field, so operand swaps, field swaps, wrong methods and wrong error kinds are all visible. Parametricity lifts the single valuation to all operand values.",
        note="Trusted: parametricity of expansions in operand values (they only call trait methods); rustc. Bounds: 1..3 fields (4 thorough), enums of <=2 (3 thorough) variants over {unit,tuple1,tuple2,named2(,named1,tuple3)}.",
        design_ref="DESIGN.md §3 C10", engine="compile"),
}

PENDING = ["C01", "C02", "C03", "C04", "C05", "C06", "C07", "C08", "C09", "C10", "C11", "C13", "C14", "C15", "C16",
           "C17", "C18", "C19", "C20"]


def main():
    checks = []
    for pid, c in sorted(CHECKS.items()):
        checks.append({
            "property_id": pid,
            "quick_cmd": "python3 run_check.py %s --tier quick" % pid,
            "thorough_cmd": "python3 run_check.py %s --tier thorough" % pid,
            "evidence_file": "/verif/evidence/%s.json" % pid,
            "replay_cmd_template": "python3 run_check.py %s --replay {path}" % pid,
            "engine": c["engine"],
            "level_claimed": {"category": "model_checking", "text": c["text"], "design_ref": c["design_ref"]},
            "level_note": c["note"],
            "technique": c["technique"],
        })
    na = [{"property_id": p, "reason": "check not built yet in this round (planned: DESIGN.md §3); not claimed until it exists"}
          for p in PENDING if p not in CHECKS]
    m = {
        "version": 1,
        "setup_cmd": "./setup.sh",
        "hooks": {
            "guard": "jeltef_derive_more_verif",
            "enable": "none needed: no hooks were added to /repo; checks mount /repo/impl/src/*.rs into the inproc engine by #[path] and build /repo as a path dependency",
            "baseline_off_cmd": "cd /repo && cargo test --workspace --no-fail-fast --offline",
            "source_commits": [],
            "add_only": True,
        },
        "engines": [
            {"name": "inproc", "path": "engines/inproc", "serves_properties": ["C01", "C03", "C04", "C08", "C09", "C16", "C17", "C18", "C19"],
             "kind_free_text": "Rust crate mounting /repo/impl/src by #[path]; calls the real expand() functions in-process under catch_unwind; exhaustive enumerators"},
            {"name": "compile", "path": "lib/compile_engine.py", "serves_properties": sorted(CHECKS),
             "kind_free_text": "generates crates using the real proc-macro, builds them with cargo, attributes diagnostics to cases (masking fixpoint, canaries), runs them"},
        ],
        "checks": checks,
        "not_applicable": na,
        "notes": "All checks: exit 0 held / 1 violation (VIOLATION line) / 2 machinery error. Known findings: known_findings.json.",
    }
    with open(os.path.join(HERE, "MANIFEST.json"), "w") as f:
        json.dump(m, f, indent=1)
    print("wrote MANIFEST.json with %d checks, %d not_applicable" % (len(checks), len(na)))


if __name__ == "__main__":
    main()
