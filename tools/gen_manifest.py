#!/usr/bin/env python3
"""Writes /verif/MANIFEST.json from the table below (kept here so the manifest stays consistent)."""
import json
import os

HERE = os.path.dirname(os.path.dirname(os.path.abspath(__file__)))

CHECKS = {
    "C12": dict(
        technique="bounded exhaustive enumeration of enum definitions (variant-kind sequences x discriminant expressions x reprs x generics) compiled with the real proc-macro; for each, every integer of the repr (8/16-bit) or all discriminant neighbours+extremes is tried against rustc's own `as` casts on a twin enum",
        text="Small-scope exhaustive exploration: the full product of the stated alphabets up to the stated sequence length is compiled and executed; try_from is compared with the cast-derived reference on every integer of the domain. The reference is rustc's own discriminant assignment (twin enum), not a model of mine.",
        note="Trusted: rustc's `as` cast on the unit-only twin enum; the masking-fixpoint attribution of diagnostics (canaries planted in every run). Bounds: sequences up to length 2 (quick) / 3 (thorough); value domain exhaustive only for 8/16-bit reprs.",
        design_ref="DESIGN.md §3 C12", engine="compile"),
    "C10": dict(
        technique="bounded exhaustive enumeration of struct/enum shapes x all 24 operator derives x forward modes, executed on a free-term-algebra operand type; every ordered pair of variant values for enums; result terms compared with the field-wise law Operand types carry decoy inherent methods named like the operator methods; named fields/variants come from a non-alphabetical pool with `_`-prefixed and raw names; `not(forward)` spelling, empty-field-list variants, where-clauses, 11-field shapes.",
        text="Small-scope exhaustive exploration of type shapes with an uninterpreted (term-building) operand type: the result of every derived operator call is compared structurally with op(lhs.i, rhs.i) for every field, so operand swaps, field swaps, wrong methods and wrong error kinds are all visible. Parametricity lifts the single valuation to all operand values.",
        note="Trusted: parametricity of expansions in operand values (they only call trait methods); rustc. Bounds: 1..3 fields (4 thorough), enums of <=2 (3 thorough) variants over {unit,tuple1,tuple2,named2(,named1,tuple3)}.",
        design_ref="DESIGN.md §3 C10", engine="compile"),
    "C11": dict(
        technique="bounded exhaustive enumeration of enums (variant-kind sequences x ref/ignore/field-ignore/raw-name configurations) compiled with the real proc-macro; every (value, accessor) pair executed and compared with a table model; addresses compared for reference forms; negative method/impl resolution checks for ignored variants",
        text="Small-scope exhaustive exploration: for every enum in the bounded space every accessor is called on a value of every variant; results, panics (caught), error payloads and addresses are compared with the table model derived from the documented rules.",
        note="Trusted: rustc; the table model (<60 lines) whose every prediction is executed. Bounds: <=2 variants (3 thorough) over 7 (8) variant kinds, plus selected 3/4-variant enums; variant names (Upper lower+){1,3} and three raw identifiers. TryInto is not derived for generic enums (coherence).",
        design_ref="DESIGN.md §3 C11", engine="compile"),
    "C13": dict(
        technique="bounded exhaustive enumeration: all subsets (size<=2 quick, <=4 thorough) of a pool of case-colliding / raw-identifier variant names; for each enum ALL strings up to length 3 (4) over the names' letters in both cases plus separators are parsed and compared with a reference implementation of the documented rule; newtypes over 9 FromStr types x 4 shapes against the field type's own parse on ~400 strings",
        text="Exhaustive short-string exploration per generated enum against an executable reference of the documented matching rule; differential check of newtypes against the inner type's FromStr including the error value.",
        note="Trusted: rustc, std's FromStr impls, the 8-line reference rule. Unicode case folding beyond str::to_lowercase is not explored.",
        design_ref="DESIGN.md §3 C13", engine="compile"),
    "C08": dict(
        technique="bounded exhaustive enumeration of struct shapes (0..3 fields, named/tuple/unit, distinct and equal field types) x From/Into/Constructor attribute configurations, and of enums (full product of variant kinds x #[from] placements for <=2 variants) compiled with the real proc-macro; values, addresses, From::from call counts and impl presence/absence (trait-resolution probes) compared with the documented rule",
        text="Small-scope exhaustive exploration with tagged field types: every conversion is executed and compared (values in order, address identity for reference forms, exactly-one-From::from counters, round trip), and the generated impl set is pinned from both sides (call what must exist, autoref-probe what must not).",
        note="Trusted: rustc trait resolution for the presence/absence probes; the rule tables in props/c08.py. Bounds: <=3 fields, <=2 variants (3 over a reduced alphabet in thorough).",
        design_ref="DESIGN.md §3 C08", engine="compile"),
    "C09": dict(
        technique="exhaustive enumeration of all field layouts (struct/variant x named/tuple x 0..3 fields x 7 attribute choices x names x types: 81,760 layouts) through the real expander in-process, compared with a model of the documented selection rules; plus run-time address identity of source() on compiled layouts (plain, Box<dyn Error>, generic)",
        text="Every layout in the bounded space is expanded by the real code and the selected member read off the expansion is compared with the documented-rule model (ambiguous layouts must be rejected, never a panic); the backtrace-free layouts are additionally compiled and source() compared by address with the field.",
        note="Trusted: the 40-line rule model (every prediction executed); the regex that reads the selected member off the expansion (fails loudly when it cannot). Layouts with a detected backtrace are decided in-process in the quick tier; the thorough tier also compiles and runs 1.4k of them with cargo +nightly (#![feature(error_generic_member_access)]).",
        design_ref="DESIGN.md §3 C09", engine="inproc+compile"),
    "C14": dict(
        technique="bounded exhaustive enumeration of structs (1..3 fields x selected position x selection mode x named/tuple x equal/different field types) x {Deref, DerefMut, AsRef, AsMut, Index, IndexMut, IntoIterator} x {direct, forward, listed types, generic, owned/ref/ref_mut}; address identity and write-through observed at run time Field types carry decoy inherent methods (deref, as_ref, index, into_iter ...); unsized fields (str newtype, trait object); field-level vs struct-level forward overrides in both directions.",
        text="Small-scope exhaustive exploration; the field type's own AsRef<Self>/AsMut<Self> deliberately return a decoy so 'the field itself' vs 'a forwarded call' is observable; addresses of returned references and iterated elements are compared with the field's own.",
        note="Trusted: rustc; address comparison within one process. Bounds: <=3 fields.",
        design_ref="DESIGN.md §3 C14", engine="compile"),
    "C18": dict(
        technique="exhaustive enumeration, against the real parser/expanders in-process under catch_unwind, of (b) all strings up to length 4 (5 thorough) over a 31-symbol alphabet with 1-4 byte characters into the literal parser and up to length 3 (4) as literals in 8 attribute positions, (c) all attribute token sequences up to length 2 (3) over a 38-token alphabet and up to length 3 (4) over a 20-token alphabet for every helper attribute x 8 item templates, (a) all 50 derives x 36 item shapes incl. unions/empty enums, (d) repetition/nesting growth series; an abort or hang is bisected by index Part a/f also require that an accepted expansion of a valid item parses as Rust items; part g compiles every in-process-rejected input (624) with the real rustc and classifies `proc-macro derive panicked` messages.",
        text="Bounded exhaustive input-space exploration with an oracle on the outcome class: Ok, Err(diagnostic) or deliberate diagnostic panic are fine; unreachable!/unimplemented!/unwrap/indexing/overflow panics, panics inside syn/quote/proc-macro2, process aborts and calls over the watchdog are violations. The spaces are index-addressable so a crash is attributed to one input.",
        note="Trusted: the panic-site classifier (reads the source line at the reported location); proc-macro2 fallback mode behaves like the compiler's token API for these inputs. Growth: exponent <= 2.7 over the last three doublings, no call > 60 s; small inputs: no call > 2 s.",
        design_ref="DESIGN.md §3 C18", engine="inproc"),
    "C16": dict(
        technique="bounded exhaustive enumeration of comma-separated expression lists (66 expression forms closed one level under 8 contexts; lists up to length 2 with every alias subset and trailing comma, length 3 in thorough) run through the real argument splitter in-process and through real Display expansions (sentinel/alias probes, verbatim re-emission), compared with syn's full Expr parser, which is itself bound to rustc's `$e:expr` parser on every alias-free list",
        text="Every list in the bounded space is split by the real code and by the reference grammar; disagreement in count, tokens, identifier classification, positional indices seen by the derive, alias recognition or verbatim re-emission is a violation. Two root-cause classes of the approximate splitter (both repaired in /repo, `fixed` in known_findings.json) are still told apart by predicates decided on the reference parse only, so a reappearance is named; families of long flat arguments among tricky neighbours guard the length heuristics that choose between the two splitters.",
        note="Trusted: syn::Expr(full) as the expression grammar, cross-checked against rustc for all alias-free lists of the quick space; the class predicates for the two known findings. Expressions outside the alphabet are not explored.",
        design_ref="DESIGN.md §3 C16", engine="inproc+compile"),
    "C19": dict(
        technique="exhaustive enumeration of expansion histories: every sequence of length <= 2 (3 thorough) over a 14-input alphabet (all expanders that iterate hashed collections), each in its own process, last expansion compared byte-for-byte with a fresh-process expansion; M=8 (64) fresh processes per input under varied environment size / thread / pool size; hasher seam observed across processes; thorough: rustc -Zunpretty=expanded on two source orders x two clean builds",
        text="Explicit-state exploration where the state is the history of expansions already performed in the process; the invariant is byte equality with the empty-history expansion. Process-level repetition covers what a history cannot (hash seeds).",
        note="Trusted: that the in-process seam returns the same tokens the proc-macro hands to rustc (checked by the thorough tier through -Zunpretty=expanded). Hash seeds cannot be enumerated; a RandomState-style regression is caught with probability 1-2^-M per hashed collection.",
        design_ref="DESIGN.md §3 C19", engine="inproc"),
    "C02": dict(
        technique="bounded exhaustive enumeration of (literal, argument list) pairs generated from their AST (placeholder = argument reference x spec; 1-2 segments with text/escapes; 8 argument templates incl. aliases, shadowing, width/precision and .* arguments, self) over unit/tuple/named shapes for all 9 traits, each as a variant/struct attribute compiled with the real proc-macro; for the full product of 3 values per field the derived text is compared with an independently built format! call",
        text="Small-scope exhaustive exploration with std's own format! as the reference: the same literal and arguments evaluated outside the derive under the statement's binding rule (references inside argument expressions, the fields themselves inside the literal).",
        note="Trusted: rustc/std format!; the generator's binding scopes. Not explored: literals with more than two varying segments, more than 3 fields, field types other than &'static i32 / f64.",
        design_ref="DESIGN.md §3 C02", engine="compile"),
    "C03": dict(
        technique="exhaustive enumeration (BFS by length) of all strings up to length 4 (5 thorough) over a 31-symbol alphabet incl. 2/3/4-byte characters, all single-placeholder bodies, every derivation of the std::fmt grammar from per-slot alphabets (73,728 quick / 4.2M thorough), one-edit neighbours and piece sequences; each string parsed by the working tree's literal parser in-process and by rustc's own rustc_parse_format (nightly), and the derive's view (implicit counter, traits, transparency, never-silently-accepted in 8 attribute positions) read off real expansions; the reference is bound to the stable toolchain's format! on every disagreement class",
        text="Exhaustive short-string / grammar-derivation exploration against the implementation std itself uses. Two residual classes are known findings with predicates that do not depend on the subject's output.",
        note="Trusted: rustc_parse_format of the installed nightly == std::fmt's grammar (cross-checked with stable format! on 27 literals covering all classes); the probe type's argument naming. Strings longer than the bound and alphabets outside the 31 symbols are not explored.",
        design_ref="DESIGN.md §3 C03", engine="inproc (nightly, rustc_private)"),
    "C05": dict(
        technique="bounded exhaustive enumeration of attribute literal classes (bare placeholder in each of 9 traits x argument forms; each modifier kind; text/escapes; several placeholders; out-of-range indices) x containers x derived traits, compiled with the real proc-macro; every case is formatted under a full grid of 224 outer format specs x 3 values per field and compared with the same grid applied to the inner argument (pass-through), with the flag-free text (inert), or must not compile",
        text="Small-scope exhaustive exploration over (literal class, container, derived trait) with an exhaustive grid of caller format specs; the statement's predicate decides per case which of the three oracles applies.",
        note="Trusted: std's formatting of i32/&i32 under each trait; rustc. Field type fixed to &'static i32 (implements all nine traits).",
        design_ref="DESIGN.md §3 C05", engine="compile"),
    "C07": dict(
        technique="bounded exhaustive enumeration of enums (full product of 9 variant kinds for <=2 variants, 6 kinds for 3 variants in thorough) x 15 enum-level literals (with 0..2 `_variant` uses as placeholder/argument/alias, field references, escapes, rejected forms) x rename_all x {Display, LowerHex, Debug}; every value of every variant compared with a 30-line model of the documented rule built from plain format! calls; rule-rejected enums must fail to compile",
        text="Small-scope exhaustive exploration; the model computes per variant the expected text (or rejection) from the statement's rule, and every prediction is executed against the real derive.",
        note="Trusted: the rule model in props/c07.py; any compile error counts as rejection for rule-rejected enums (reason not matched).",
        design_ref="DESIGN.md §3 C07", engine="compile"),
    "C04": dict(
        technique="bounded exhaustive enumeration of generic type definitions (14 field type forms x 5 reference styles per field x 1..3 fields x named/tuple x {struct, variant, shared enum default, shared enum wrapping, Debug field attributes/skip/implicit} x derived trait): 370k expansions through the real expanders in-process with the where-clause compared with the model bound set; a 2-field sub-space compiled with rustc for sufficiency (no further bounds) and non-excess (unformatted parameters instantiated with a type that implements no fmt trait)",
        text="Every definition in the bounded space is expanded by the real code; the set of where-predicates mentioning a type parameter must equal {type of each referenced generic field : trait of the referencing placeholder} U bound(..) predicates. rustc then confirms on the compiled sub-space that the bounds are enough and do not constrain unformatted parameters.",
        note="Trusted: the model in props/c04.py (each prediction executed); whitespace-free text comparison of predicates; std impl table used to pick instantiations. Trivially-true predicates on non-generic types are ignored.",
        design_ref="DESIGN.md §3 C04", engine="inproc+compile"),
    "C06": dict(
        technique="(1) bounded exhaustive enumeration of type universes (struct shapes x 8 field types, enums over 7 variant kinds, raw identifiers, generics, 3-level nesting, all skip subsets, field-level format attributes) each defined with derive_more::Debug, with std's derive / std builders, and with an executable model of the one known defect, compared under a grid of 336 (768 thorough) formatter specs; (2) explicit-state breadth-first exploration of the real DebugTuple builder: (name, operation sequence up to depth 3 (4), terminal, 24 formatter specs) x every write-fault point of the output, against core::fmt::DebugTuple (same bytes before the fault, same Result)",
        text="Differential exploration against std's own Debug machinery, with fault enumeration on the sink for the re-implemented builder; the state space of the builder is enumerated exhaustively up to the stated depth.",
        note="Trusted: std's derive(Debug)/builders as the specification; the sticky failing sink. The known finding is recognised only when the output equals the defect model exactly.",
        design_ref="DESIGN.md §3 C06", engine="compile + engines/dbgtuple"),
    "C01": dict(
        technique="bounded exhaustive enumeration of programs: 50 derives x their documented shape/attribute templates (support table transcribed from impl/doc) x 8 (quick) / 14 (thorough) generics signatures (lifetimes, bounded/defaulted type parameters, const parameters with defaults, where-clauses incl. projections, const-before-type) x plain/raw identifiers x {none, #[deprecated] field, #[deprecated] variant, uninhabited field}; each program is expanded in-process (accepted, impl-header invariants) and type-checked by rustc with the real proc-macro under #![deny(warnings)], differentially against a control twin without the derive Plus 'accepted => compiles': 53 degenerate/plain item shapes x 50 derives x container-level and (first/last/every) member-level helper attributes; whatever the real expander accepts in-process is compiled under #![deny(warnings)] (6.6k programs).",
        text="Small-scope exhaustive exploration of the supported program space; the verdict per program is rustc's (no diagnostics attributable to the derive) plus structural invariants of the generated impl headers.",
        note="Trusted: the support table (docs transcription); the carrier type meeting every trait requirement; rustc. Field types are the carrier H<X, N> (and T for Error); other field-type forms are C04's subject.",
        design_ref="DESIGN.md §3 C01", engine="inproc+compile"),
    "C15": dict(
        technique="bounded exhaustive enumeration: every (derive, documented template) of C01's support table on the non-generic and a fully generic signature (plus a third in thorough), placed in two hostile scopes - #[no_implicit_prelude] with only `use ::derive_more;`, and a module shadowing 96 prelude type/variant/trait names, derive_more helper names, std macros and core/std/alloc - and type-checked with the real proc-macro under #![deny(warnings)] Third hostile scope: a local blanket trait with by-value methods named like the 40 methods of the std traits the derives delegate to.",
        text="Configuration-space exploration: the same programs that compile in a neutral scope (C01) must compile in each hostile scope; user-written tokens are given explicit imports so any unresolved or mis-resolved name is the expansion's.",
        note="Trusted: rustc name resolution. Behavioural identity follows from the expansion text being scope-independent; only compilation is observed.",
        design_ref="DESIGN.md §3 C15", engine="compile"),
    "C20": dict(
        technique="exhaustive enumeration of the feature lattice up to size 2 and its top: 24 singles (quick) + 276 pairs + full (thorough), each with and without std (48 / 602 configurations); per configuration cargo check of derive_more-impl and derive_more from the working tree, a probe crate whose unresolved imports must be exactly the 157 items (50 derives x 3 paths + 7 helper types) of the disabled features, and (thorough: singles and full) the repository's own test program per feature",
        text="Configuration-space exploration: every configuration in the stated part of the lattice is built with the real toolchain; exposure is decided per item by rustc's name resolution.",
        note="Trusted: cargo/rustc; the helper-type -> feature table transcribed from the docs. Triples and larger proper subsets are not explored (pairs exercise every pairwise combination of the cfg(any(feature..)) guards).",
        design_ref="DESIGN.md §3 C20", engine="cargo"),
    "C17": dict(
        technique="enumeration of the documented attribute grammar per derive (tables transcribed from impl/doc and the CHANGELOG): 70 groups of synonymous spellings (skip/ignore, bound/bounds, one list vs several attributes incl. every ordered split of 3-type lists and every spreading of owned/ref/ref_mut over up to three attributes, trailing commas, argument/attribute order, mark-one vs ignore-others; ~1.1k spellings) expanded by the real code in-process and compared as canonical multisets of items; 337 single-step corruptions (unknown argument in each slot, duplicates, conflicting pairs, wrong item kind, legacy forms) each of which must be rejected by the derive (or, for arguments that are syntactically types, by rustc on the real proc-macro); and, for the 22 positions of the derives sharing the flag-style parser, ALL parameter sequences up to length 3 (4 thorough) over a 12-token alphabet: whatever is accepted must use only documented parameters, none twice or contradictorily, `ignore` alone Part 4: every corpus item decorated with unrelated attributes on item/variants/fields must expand identically (25k comparisons); part 5: every corpus item re-spelled with the least / the most whitespace the lexer allows must expand to the same token trees (54k comparisons); the corpus includes the repository's own test and documentation derive inputs.",
        text="Exhaustive over the hand-transcribed grammar tables (not over all token sequences - those are C18's space): each rewrite pair must expand identically, each corruption must fail.",
        note="Trusted: the grammar tables in props/c17.py and the canonicalisation (impl order, where-predicate order). Positions the docs do not name (e.g. #[display] on a field, #[index] on the struct) are out of scope.",
        design_ref="DESIGN.md §3 C17", engine="inproc+compile"),
}

# dimensions added by the defect-hunting rounds and round 9 (DESIGN.md 7.18 / 7.19): the deciding method is the same bounded
# exhaustive enumeration, over a larger alphabet
ADDED = {
    "C01": " Field types with constant expressions of every kind and with `Self`; `#[deprecated]` / lint-allowing items (non-snake-case fields, lower-case parameters); companion impls written by hand; macro-generated twins where fragments are nested in types, sit behind references, appear in attribute lists (each with a use site).",
    "C02": " Plus types generated by a macro_rules!: arguments built around `$e:expr` fragments (operators, paths-only sums, statements and items in block arguments) and literals written by the macro's caller naming `_0`, `_1`, `_variant`, width and precision fields; reference: a format! written by the same macro.",
    "C04": " Plus fields generic only through `Self` projections or type macros, and recursive generic types (by name / `Self`, incl. recursive fields fixing one parameter) compiled and instantiated with formatting-less types.",
    "C06": " (4) recursive generic types (lists, trees, by name and as `Self`) against std's derive on the identical definition.",
    "C09": " The model's sole-field rule follows error.md (`not used as the backtrace`); every error type carries a decoy inherent `as_dyn_error`; ignored variants whose fields carry source / not(backtrace) attributes.",
    "C11": " Variant-level `#[unwrap(ref)]` / `#[unwrap(ref, ref_mut)]` selections are additive (other variants keep their accessors).",
    "C12": " Part E: names like the expansion's helper constants, raw enum names with `Self` discriminants; part G: enums generated by one and by two nested macro_rules! whose discriminants are built around `$e:expr` fragments.",
    "C16": " Alphabet extended by comparison/shift followed by a global path and by undelimited struct literals combined with generic casts, `|` and closures.",
}

PENDING = ["C01", "C02", "C03", "C04", "C05", "C06", "C07", "C08", "C09", "C10", "C11", "C13", "C14", "C15", "C16",
           "C17", "C18", "C19", "C20"]


def main():
    checks = []
    for pid, c in sorted(CHECKS.items()):
        checks.append({
            "property_id": pid,
            "quick_cmd": "python3 run_check.py %s --tier quick" % pid,
            "thorough_cmd": "python3 run_check.py %s --tier thorough" % pid,
            "evidence_file": "/verif/evidence/%s.json" % pid,
            "replay_cmd_template": "python3 run_check.py %s --replay {path}" % pid,
            "engine": c["engine"],
            "level_claimed": {"category": "model_checking", "text": c["text"], "design_ref": c["design_ref"]},
            "level_note": c["note"],
            "technique": c["technique"] + ADDED.get(pid, ""),
        })
    na = [{"property_id": p, "reason": "check not built yet in this round (planned: DESIGN.md §3); not claimed until it exists"}
          for p in PENDING if p not in CHECKS]
    m = {
        "version": 1,
        "setup_cmd": "./setup.sh",
        "hooks": {
            "guard": "jeltef_derive_more_verif",
            "enable": "none needed: no hooks were added to /repo; checks mount /repo/impl/src/*.rs into the inproc engine by #[path] and build /repo as a path dependency",
            "baseline_off_cmd": "cd /repo && cargo test --workspace --no-fail-fast --offline",
            "source_commits": [],
            "add_only": True,
        },
        "engines": [
            {"name": "inproc", "path": "engines/inproc", "serves_properties": ["C01", "C03", "C04", "C08", "C09", "C16", "C17", "C18", "C19"],
             "kind_free_text": "Rust crate mounting /repo/impl/src by #[path]; calls the real expand() functions in-process under catch_unwind; exhaustive enumerators"},
            {"name": "dbgtuple", "path": "engines/dbgtuple", "serves_properties": ["C06"],
             "kind_free_text": "explicit-state BFS over derive_more's DebugTuple builder operations x formatter specs x write-fault points against core::fmt::DebugTuple"},
            {"name": "compile", "path": "lib/compile_engine.py", "serves_properties": sorted(CHECKS),
             "kind_free_text": "generates crates using the real proc-macro, builds them with cargo, attributes diagnostics to cases (masking fixpoint, canaries), runs them"},
        ],
        "checks": checks,
        "not_applicable": na,
        "notes": "All checks: exit 0 held / 1 violation (VIOLATION line) / 2 machinery error. Known findings: known_findings.json.",
    }
    with open(os.path.join(HERE, "MANIFEST.json"), "w") as f:
        json.dump(m, f, indent=1)
    print("wrote MANIFEST.json with %d checks, %d not_applicable" % (len(checks), len(na)))


if __name__ == "__main__":
    main()
