#!/bin/sh
# usage: tools/mutrun.sh <scratch-repo-dir> <PROP> [tier]   -- runs a check against a scratch copy of the repo
# without touching /repo, /verif/evidence or the shared target dirs.
D="$1"; P="$2"; T="${3:-quick}"
# Cargo.lock is not tracked by the repository: a fresh worktree has none until cargo has run in it
[ -f "$D/Cargo.lock" ] || cp /repo/Cargo.lock "$D/Cargo.lock"
VERIF_REPO="$D" VERIF_TARGET="$D/.vt" VERIF_WORK="$D/.vw" VERIF_OUT="$D/.vout" python3 /verif/run_check.py "$P" --tier "$T"
