#!/bin/bash
# usage: tools/confirm_seed.sh <worktree> <seed-id> <PROP> [PROP...]
# Confirms a seeded change delivered by a sub-agent in <worktree>/seed/ (patch applied in the worktree):
#  demo fails with the patch, passes without; repository suite passes with the patch (compile_fail excluded);
#  then runs the named checks against the patched worktree and stores everything under /verif/seeded/<seed-id>/.
W="$1"; ID="$2"; shift 2
OUT=/verif/seeded/$ID; mkdir -p $OUT
cp $W/seed/patch.diff $OUT/patch.diff; cp $W/seed/meta.json $OUT/agent_meta.json 2>/dev/null
[ -f $W/seed/demo.rs ] && cp $W/seed/demo.rs $OUT/demo.rs
export CARGO_TARGET_DIR=$W/target CARGO_NET_OFFLINE=true
cd $W
git diff --quiet -- impl src && git apply seed/patch.diff   # make sure the patch is applied
demo() { O=$(cargo test --offline --features full --test seed_demo 2>&1); R=$(echo "$O" | grep -E "^test result" | tail -1); [ -z "$R" ] && R="DOES NOT COMPILE: $(echo "$O" | grep -E "^error" | head -2 | tr '\n' ' ')"; echo "$R"; }
WITH=$(demo)
git apply -R $OUT/patch.diff
WITHOUT=$(demo)
git apply $OUT/patch.diff
# the repository suite is run without the demo scaffolding (the demo is expected to fail / not compile with the patch)
cp Cargo.toml Cargo.toml.seedbak; mv tests/seed_demo.rs /tmp/seed_demo_$ID.rs 2>/dev/null
python3 - <<'PY'
import re
s = open("Cargo.toml").read()
s = re.sub(r'\n\[\[test\]\]\s*\nname = "seed_demo"[^\[]*', "\n", s)
open("Cargo.toml", "w").write(s)
PY
SUITE=$(cargo test --workspace --no-fail-fast --offline 2>&1 | grep -E "^test result|^test .* FAILED|^error" | grep -v "^test result: ok" | tr '\n' ';')
mv Cargo.toml.seedbak Cargo.toml; mv /tmp/seed_demo_$ID.rs tests/seed_demo.rs 2>/dev/null
echo "demo with patch:    $WITH"; echo "demo without patch: $WITHOUT"; echo "suite non-ok lines with patch: $SUITE"
RES=""
for P in "$@"; do
  O=$(/verif/tools/mutrun.sh $W $P quick 2>&1); RC=$?
  echo "$P rc=$RC $(echo "$O" | grep -E "^$P quick:" | tail -1)"; echo "$O" | grep -E "signature" | head -3
  RES="$RES\"$P\": {\"rc\": $RC, \"first_signature\": $(echo "$O" | grep -E "signature" | head -1 | python3 -c 'import json,sys; print(json.dumps(sys.stdin.read().strip()[:300]))')}, "
done
python3 - "$OUT" "$WITH" "$WITHOUT" "$SUITE" "{${RES%, }}" <<'PY'
import json, sys, os
out, w, wo, suite, res = sys.argv[1:6]
am = {}
try: am = json.load(open(os.path.join(out, "agent_meta.json")))
except Exception: pass
meta = {"property": am.get("property"), "summary": am.get("summary"), "needs": am.get("needs"), "files": am.get("files"),
        "confirmed": {"demo_with_patch": w, "demo_without_patch": wo, "suite_non_ok_with_patch": suite or "none (only compile_fail excluded)"},
        "ran": "tools/confirm_seed.sh: demo (cargo test --features full --test seed_demo) with and without patch, full repository suite with patch, then the listed checks via tools/mutrun.sh (quick tier) against the patched scratch worktree",
        "checks": json.loads(res)}
json.dump(meta, open(os.path.join(out, "meta.json"), "w"), indent=1)
print(json.dumps(meta["checks"]))
PY
