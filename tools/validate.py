#!/usr/bin/env python3
import json, glob, sys
import jsonschema
ok = True
m = json.load(open('/verif/MANIFEST.json'))
jsonschema.validate(m, json.load(open('/root/.vp/MANIFEST.schema.json')))
es = json.load(open('/root/.vp/EVIDENCE.schema.json'))
for c in m['checks']:
    try:
        jsonschema.validate(json.load(open(c['evidence_file'])), es)
    except Exception as e:
        ok = False; print('INVALID', c['evidence_file'], str(e)[:300])
ids = {c['property_id'] for c in m['checks']} | {n['property_id'] for n in m.get('not_applicable', [])}
props = [json.loads(l)['id'] for l in open('/verif/properties.jsonl')]
missing = [p for p in props if p not in ids]
print('manifest ok; checks=%d na=%d missing=%s evidence_ok=%s' % (len(m['checks']), len(m.get('not_applicable', [])), missing, ok))
sys.exit(0 if ok and not missing else 1)
