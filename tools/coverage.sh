#!/bin/bash
# Diagnostic aid (not a registered check): which lines of /repo/impl/src does no check reach?
# Builds the in-process engine with -C instrument-coverage (nightly), runs every check's tier with it, re-expands every
# derive of every generated seam-B program in-process (`inproc cover`), and writes <out>/uncovered.txt and <out>/summary.txt.
# usage: tools/coverage.sh [tier] [out-dir]     (out-dir outside /verif; default /tmp/verif_cov)
TIER=${1:-quick}; OUT=${2:-/tmp/verif_cov}
rm -rf $OUT; mkdir -p $OUT/raw $OUT/programs
export VERIF_COVERAGE=$OUT VERIF_OUT=$OUT/out VERIF_WORK=$OUT/work
cd /verif
for p in $(seq -f "C%02g" 1 20); do
  [ $p = C20 ] && continue
  python3 run_check.py $p --tier $TIER 2>&1 | tail -1
done
SYS=$(rustc +nightly --print sysroot); BIN=/verif/target/inproc-cov/release/inproc
export LD_LIBRARY_PATH=$SYS/lib LLVM_PROFILE_FILE=$OUT/raw/cover-%p.profraw
ls $OUT/programs/*.rs | xargs -P 8 -n 4 $BIN cover | tail -3
TOOLS=$SYS/lib/rustlib/x86_64-unknown-linux-gnu/bin
find $OUT/raw -name "*.profraw" > $OUT/raw.list
$TOOLS/llvm-profdata merge -sparse -f $OUT/raw.list -o $OUT/merged.profdata || exit 3
$TOOLS/llvm-cov report $BIN -instr-profile=$OUT/merged.profdata $(find /repo/impl/src -name "*.rs") > $OUT/summary.txt 2>/dev/null
$TOOLS/llvm-cov show $BIN -instr-profile=$OUT/merged.profdata -show-line-counts -use-color=false $(find /repo/impl/src -name "*.rs") > $OUT/show.txt 2>/dev/null
python3 - $OUT <<'PY'
import re, sys
out = sys.argv[1]
cur, res = None, []
for line in open(out + "/show.txt", errors="replace"):
    if line.startswith("/repo/impl/src/") and line.rstrip().endswith(":"):
        cur = line.strip()[:-1]
        continue
    m = re.match(r"\s*(\d+)\|\s*0\|(.*)", line)
    if m and cur:
        res.append("%s:%s: %s" % (cur.replace("/repo/impl/src/", ""), m.group(1), m.group(2).rstrip()))
open(out + "/uncovered.txt", "w").write("\n".join(res) + "\n")
print("uncovered lines:", len(res))
PY
tail -5 $OUT/summary.txt
rm -rf $OUT/raw $OUT/work
