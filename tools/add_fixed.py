#!/usr/bin/env python3
"""tools/add_fixed.py <PROP> <id> <commit> <what> <witness>: append a `fixed` entry to known_findings.json (never run by a check)"""
import json, sys
prop, fid, commit, what, witness = sys.argv[1:6]
k = json.load(open("/verif/known_findings.json"))
assert not any(f["id"] == fid for f in k["findings"]), "duplicate id"
k["findings"].append({"status": "fixed", "property": prop, "id": fid, "commit": commit, "what": "fixed: property=%s %s %s" % (prop, commit, what), "witness": witness})
with open("/verif/known_findings.json", "w") as f:
    json.dump(k, f, indent=1, ensure_ascii=False); f.write("\n")
