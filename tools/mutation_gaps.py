#!/usr/bin/env python3
"""Diagnostic aid (NOT a registered check): which small source mutants of /repo/impl/src change no expansion at all on the
request corpus that the checks explore?  Such a survivor is either an equivalent mutant / dead code, or a behaviour
no check reaches - the second kind is what this tool is for; each one examined by hand becomes an alphabet extension.

  tools/mutation_gaps.py corpus <dir>            collect the corpus: every seam-A request and every seam-B derive input
                                                 of all quick tiers (writes <dir>/corpus.jsonl)
  tools/mutation_gaps.py run <dir> [file-glob]   enumerate mutants, build the in-process engine against each (scratch copy
                                                 of /repo under <dir>), fingerprint all expansions, compare with the baseline;
                                                 appends to <dir>/results.jsonl (resumable)
  tools/mutation_gaps.py report <dir>            summary + list of survivors

Everything lives under <dir> (outside /repo and /verif); /repo is only read."""
import fnmatch
import glob
import json
import os
import re
import shutil
import subprocess
import sys

VERIF = os.path.dirname(os.path.dirname(os.path.abspath(__file__)))
ENGINE = os.path.join(VERIF, "engines", "inproc")

OPS = [
    ("eq->ne", r"(?<![=!<>])==(?!=)", "!="), ("ne->eq", r"!=(?!=)", "=="),
    ("and->or", r"&&", "||"), ("or->and", r"(?<=[\w)\]] )\|\|(?= [\w!(*&])", "&&"),
    ("lt->le", r"(?<= )<(?= )", "<="), ("gt->ge", r"(?<= )>(?= )", ">="), ("le->lt", r"(?<= )<=(?= )", "<"), ("ge->gt", r"(?<= )>=(?= )", ">"),
    ("lt->ge", r"(?<= )<(?= )", ">="), ("gt->le", r"(?<= )>(?= )", "<="),
    ("plus1->plus0", r"\+ 1\b", "+ 0"), ("minus1->minus0", r"- 1\b", "- 0"), ("plus->minus", r"(?<= )\+(?= \w)", "-"),
    ("0->1", r"(?<![\w.\"'$#{:])0(?![\w.\"'}$])", "1"), ("1->0", r"(?<![\w.\"'$#{:])1(?![\w.\"'}$])", "0"), ("1->2", r"(?<![\w.\"'$#{:])1(?![\w.\"'}$])", "2"),
    ("true->false", r"\btrue\b", "false"), ("false->true", r"\bfalse\b", "true"),
    ("is_some->is_none", r"\.is_some\(\)", ".is_none()"), ("is_none->is_some", r"\.is_none\(\)", ".is_some()"),
    ("is_empty->not", r"\.is_empty\(\)", ".is_empty() == false"),
    ("unraw->id", r"\.unraw\(\)", ""), ("first->last", r"\.first\(\)", ".last()"), ("last->first", r"\.last\(\)", ".first()"),
    ("any->all", r"\.any\(", ".all("), ("all->any", r"\.all\(", ".any("), ("skip1->skip0", r"\.skip\(1\)", ".skip(0)"),
    ("rev->id", r"\.rev\(\)", ""), ("is_some_and->is_none_or", r"\.is_some_and\(", ".is_none_or("),
    ("map_or_true->false", r"map_or\(true,", "map_or(false,"), ("map_or_false->true", r"map_or\(false,", "map_or(true,"),
    ("filter->all", r"\.filter\(\|([^|]*)\|", r".filter(|\1| true || "), ("find->none", r"\.position\(\|([^|]*)\|", r".position(|\1| false && "),
    ("negate-if", r"^(\s*(?:\} else )?if )(?!let )(.+) \{$", r"\1!(\2) {"),
    ("unwrap_or_default", r"\.unwrap_or\((\w+)\)", r".unwrap_or(!\1)"),
    ("len==->len!=", r"\.len\(\) > (\d)", r".len() >= \1"),
]


def sh(cmd, **kw):
    return subprocess.run(cmd, stdout=subprocess.PIPE, stderr=subprocess.PIPE, text=True, **kw)


def env_for(d):
    e = dict(os.environ)
    e.update(CARGO_NET_OFFLINE="true", VERIF_REPO=os.path.join(d, "repo"), CARGO_TARGET_DIR=os.path.join(d, "target"))
    e.pop("RUSTFLAGS", None)
    return e


def build(d):
    p = sh(["cargo", "build", "--offline", "--quiet", "--profile", "mut"], cwd=ENGINE, env=env_for(d))
    return p.returncode == 0, p.stderr


def fingerprint(d, corpus_file):
    exe = os.path.join(d, "target", "mut", "inproc")
    with open(corpus_file) as f:
        try:
            p = subprocess.run([exe, "fp"], stdin=f, stdout=subprocess.PIPE, stderr=subprocess.DEVNULL, text=True, timeout=600, env=env_for(d))
        except subprocess.TimeoutExpired:
            return None
    if p.returncode != 0:
        return None
    return p.stdout.split("\n")


def code_lines(path):
    """(line number, text) of mutable lines: not comments, not attributes/docs, not inside the trailing `#[cfg(test)]` module."""
    out = []
    lines = open(path).read().split("\n")
    for i, l in enumerate(lines):
        s = l.strip()
        if s.startswith("#[cfg(test)]"):
            break
        if not s or s.startswith("//") or s.startswith("#[") or s.startswith("#!["):
            continue
        out.append((i, l))
    return out


def mutants(repo, pattern):
    src = os.path.join(repo, "impl", "src")
    files = sorted(glob.glob(os.path.join(src, "**", "*.rs"), recursive=True))
    for f in files:
        rel = os.path.relpath(f, src)
        if rel == "lib.rs" or not fnmatch.fnmatch(rel, pattern):
            continue
        for i, l in code_lines(f):
            code = l.split(" //")[0]
            for name, rx, rep in OPS:
                for k, m in enumerate(re.finditer(rx, code)):
                    new = code[:m.start()] + m.expand(rep) + code[m.end():] + l[len(code):]
                    if new != l:
                        yield {"file": rel, "line": i + 1, "op": name, "k": k, "old": l.strip(), "new": new.strip(), "_new_line": new}


def cmd_corpus(d):
    os.makedirs(d, exist_ok=True)
    progs = os.path.join(d, "programs")
    shutil.rmtree(progs, ignore_errors=True)
    os.makedirs(progs)
    svc = os.path.join(d, "svc.jsonl")
    if os.path.exists(svc):
        os.remove(svc)
    e = dict(os.environ)
    e.update(VERIF_SVC_DUMP=svc, VERIF_KEEP_PROGRAMS=progs, VERIF_OUT=os.path.join(d, "out"), VERIF_WORK=os.path.join(d, "work"))
    for k in range(1, 20):
        p = sh(["python3", os.path.join(VERIF, "run_check.py"), "C%02d" % k, "--tier", "quick"], env=e)
        print(p.stdout.strip().split("\n")[-1])
    exe = sh(["python3", "-c", "import sys; sys.path.insert(0, '%s/lib'); import common; print(common.inproc_bin())" % VERIF]).stdout.strip()
    seen = set()
    with open(os.path.join(d, "corpus.jsonl"), "w") as out:
        for l in open(svc):
            if l not in seen:
                seen.add(l)
                out.write(l)
        for f in sorted(glob.glob(os.path.join(progs, "*.rs"))):
            p = sh([exe, "cover", "--dump", f])
            for l in p.stdout.splitlines(True):
                if l not in seen:
                    seen.add(l)
                    out.write(l)
    shutil.rmtree(os.path.join(d, "work"), ignore_errors=True)
    print("corpus:", len(seen), "distinct derive inputs")


def cmd_run(d, pattern="*"):
    repo = os.path.join(d, "repo")
    shutil.rmtree(repo, ignore_errors=True)
    sh(["rsync", "-a", "--exclude", "target", "--exclude", ".git", "/repo/", repo + "/"])
    src = os.path.join(repo, "impl", "src")
    corpus = os.path.join(d, "corpus.jsonl")
    ok, err = build(d)
    if not ok:
        sys.exit("baseline build failed:\n" + err[-3000:])
    base = fingerprint(d, corpus)
    reqs = None
    done = set()
    res_path = os.path.join(d, "results.jsonl")
    if os.path.exists(res_path):
        for l in open(res_path):
            r = json.loads(l)
            done.add((r["file"], r["line"], r["op"], r["k"]))
    ms = list(mutants("/repo", pattern))
    print("mutants:", len(ms), "already done:", len(done))
    with open(res_path, "a") as out:
        for n, m in enumerate(ms):
            key = (m["file"], m["line"], m["op"], m["k"])
            if key in done:
                continue
            path = os.path.join(src, m["file"])
            orig = open(path).read()
            lines = orig.split("\n")
            if lines[m["line"] - 1].strip() != m["old"]:
                sys.exit("scratch copy out of sync at %s:%d" % (m["file"], m["line"]))
            lines[m["line"] - 1] = m["_new_line"]
            open(path, "w").write("\n".join(lines))
            try:
                ok, err = build(d)
                if not ok:
                    status, nd, first = "nocompile", 0, None
                else:
                    fp = fingerprint(d, corpus)
                    if fp is None:
                        status, nd, first = "killed-abort", -1, None
                    else:
                        diff = [i for i, (a, b) in enumerate(zip(base, fp)) if a != b]
                        nd = len(diff)
                        status = "killed" if nd else "survived"
                        first = None
                        if nd:
                            if reqs is None:
                                reqs = open(corpus).read().split("\n")
                            first = reqs[diff[0]][:300]
            finally:
                open(path, "w").write(orig)
            rec = {k: v for k, v in m.items() if not k.startswith("_")}
            rec.update(status=status, differing=nd, first=first)
            out.write(json.dumps(rec) + "\n")
            out.flush()
            if status == "survived":
                print("SURVIVED %s:%d [%s] %s  ->  %s" % (m["file"], m["line"], m["op"], m["old"][:90], m["new"][:90]), flush=True)
            elif n % 25 == 0:
                print("... %d/%d" % (n, len(ms)), flush=True)


def cmd_stage2(d):
    """Survivors in the files behind the engines whose spaces are not part of the fingerprint corpus (C16's argument lists,
    C03's and C18's string sweeps): run those checks themselves against the mutant."""
    repo = os.path.join(d, "repo")
    sh(["rsync", "-a", "--delete", "--exclude", "target", "--exclude", ".git", "/repo/", repo + "/"])
    src = os.path.join(repo, "impl", "src")
    rs = [json.loads(l) for l in open(os.path.join(d, "results.jsonl"))]
    surv = [r for r in rs if r["status"] == "survived"]
    plan = {"parsing.rs": ["C16"], "fmt/parsing.rs": ["C03", "C18"], "fmt/mod.rs": ["C03", "C16", "C18"], "fmt/display.rs": ["C03", "C18"], "fmt/debug.rs": ["C03", "C18"]}
    out_path = os.path.join(d, "stage2.jsonl")
    done = set()
    if os.path.exists(out_path):
        for l in open(out_path):
            r = json.loads(l)
            done.add((r["file"], r["line"], r["op"], r["k"]))
    e = dict(os.environ)
    e.update(VERIF_REPO=repo, VERIF_TARGET=os.path.join(d, "vt"), VERIF_WORK=os.path.join(d, "vw"), VERIF_OUT=os.path.join(d, "vout"))
    with open(out_path, "a") as out:
        for r in surv:
            key = (r["file"], r["line"], r["op"], r["k"])
            if key in done or r["file"] not in plan or "unreachable!" in r["old"]:
                continue
            # /repo may have moved on since the survivor was recorded: match by text, not by line number
            m = next((x for x in mutants(repo, r["file"]) if (x["file"], x["op"], x["k"], x["old"]) == (r["file"], r["op"], r["k"], r["old"])), None)
            if m is None:
                print("GONE     %s:%d [%s] (the line no longer exists)" % (r["file"], r["line"], r["op"]), flush=True)
                continue
            path = os.path.join(src, r["file"])
            orig = open(path).read()
            lines = orig.split("\n")
            lines[m["line"] - 1] = m["_new_line"]
            open(path, "w").write("\n".join(lines))
            verdict = {}
            try:
                for chk in plan[r["file"]]:
                    p = sh(["python3", os.path.join(VERIF, "run_check.py"), chk, "--tier", "quick"], env=e)
                    verdict[chk] = p.returncode
            finally:
                open(path, "w").write(orig)
            rec = dict(r, checks=verdict, killed_by_checks=any(v == 1 for v in verdict.values()))
            out.write(json.dumps(rec) + "\n")
            out.flush()
            print("%s %s:%d [%s] %s" % ("KILLED  " if rec["killed_by_checks"] else "SURVIVED", r["file"], r["line"], r["op"], verdict), flush=True)


SRC_PLAN = {"fmt.rs": ["C06"], "as.rs": ["C14"], "convert.rs": ["C11", "C12"], "str.rs": ["C13"], "try_unwrap.rs": ["C11"], "add.rs": ["C10"], "ops.rs": ["C10"],
            "vendor/thiserror/aserror.rs": ["C09"]}


def src_mutants(repo):
    src = os.path.join(repo, "src")
    for rel in sorted(SRC_PLAN):
        f = os.path.join(src, rel)
        for i, l in code_lines(f):
            code = l.split(" //")[0]
            for name, rx, rep in OPS:
                for k, m in enumerate(re.finditer(rx, code)):
                    new = code[:m.start()] + m.expand(rep) + code[m.end():] + l[len(code):]
                    if new != l:
                        yield {"file": "src/" + rel, "line": i + 1, "op": name, "k": k, "old": l.strip(), "new": new.strip(), "_new_line": new, "_rel": rel}


def cmd_src(d):
    """Mutants of the hand-written run-time helpers of the facade crate (/repo/src): no expansion changes, so each one is
    judged by the run-time check of the property it serves (scratch copy of the repository, its own target directory)."""
    repo = os.path.join(d, "repo_src")
    shutil.rmtree(repo, ignore_errors=True)
    sh(["rsync", "-a", "--exclude", "target", "--exclude", ".git", "/repo/", repo + "/"])
    e = dict(os.environ)
    e.update(VERIF_REPO=repo, VERIF_TARGET=os.path.join(d, "vt_src"), VERIF_WORK=os.path.join(d, "vw_src"), VERIF_OUT=os.path.join(d, "vout_src"))
    out_path = os.path.join(d, "src_results.jsonl")
    done = set()
    if os.path.exists(out_path):
        for l in open(out_path):
            r = json.loads(l)
            done.add((r["file"], r["line"], r["op"], r["k"]))
    # baseline must be green
    for chk in sorted({c for v in SRC_PLAN.values() for c in v}):
        p = sh(["python3", os.path.join(VERIF, "run_check.py"), chk, "--tier", "quick"], env=e)
        if p.returncode != 0:
            sys.exit("baseline %s is not green in the scratch copy: rc=%s\n%s" % (chk, p.returncode, p.stdout[-2000:]))
    ms = list(src_mutants("/repo"))
    print("src mutants:", len(ms), flush=True)
    with open(out_path, "a") as out:
        for m in ms:
            key = (m["file"], m["line"], m["op"], m["k"])
            if key in done:
                continue
            path = os.path.join(repo, "src", m["_rel"])
            orig = open(path).read()
            lines = orig.split("\n")
            lines[m["line"] - 1] = m["_new_line"]
            open(path, "w").write("\n".join(lines))
            verdict = {}
            try:
                b = sh(["cargo", "check", "--offline", "-q", "--features", "full"], cwd=repo, env=dict(e, CARGO_TARGET_DIR=os.path.join(d, "vt_src", "precheck"), CARGO_NET_OFFLINE="true"))
                if b.returncode != 0:
                    status = "nocompile"
                else:
                    for chk in SRC_PLAN[m["_rel"]]:
                        p = sh(["python3", os.path.join(VERIF, "run_check.py"), chk, "--tier", "quick"], env=e)
                        verdict[chk] = p.returncode
                    status = "killed" if any(v == 1 for v in verdict.values()) else ("survived" if all(v == 0 for v in verdict.values()) else "machinery")
            finally:
                open(path, "w").write(orig)
            rec = {k: v for k, v in m.items() if not k.startswith("_")}
            rec.update(status=status, checks=verdict)
            out.write(json.dumps(rec) + "\n")
            out.flush()
            print("%-9s %s:%d [%s] %s -> %s %s" % (status.upper(), m["file"], m["line"], m["op"], m["old"][:70], m["new"][:70], verdict), flush=True)


def cmd_report(d):
    rs = [json.loads(l) for l in open(os.path.join(d, "results.jsonl"))]
    import collections
    c = collections.Counter(r["status"] for r in rs)
    print(dict(c))
    compiled = [r for r in rs if r["status"] != "nocompile"]
    print("compiled: %d, killed (some expansion of the corpus differs): %d, survived: %d" % (
        len(compiled), sum(1 for r in compiled if r["status"].startswith("killed")), sum(1 for r in compiled if r["status"] == "survived")))
    for r in rs:
        if r["status"] == "survived":
            print("%s:%d [%s] %s  ->  %s" % (r["file"], r["line"], r["op"], r["old"][:100], r["new"][:100]))


if __name__ == "__main__":
    cmd = sys.argv[1]
    if cmd == "corpus":
        cmd_corpus(sys.argv[2])
    elif cmd == "run":
        cmd_run(sys.argv[2], *(sys.argv[3:4]))
    elif cmd == "src":
        cmd_src(sys.argv[2])
    elif cmd == "stage2":
        cmd_stage2(sys.argv[2])
    elif cmd == "report":
        cmd_report(sys.argv[2])
