#!/bin/bash
# Regression of the detection matrix: applies every /verif/seeded/<id> patch (patch_head.diff if present) in ONE scratch worktree
# of /repo HEAD, runs the quick check(s) named in its meta.json "caught_by" (or the property's own check) and reports rc per seed.
# usage: tools/reseed_all.sh [seed-id-glob]
W=/tmp/reseed_wt
git -C /repo worktree remove --force $W 2>/dev/null; git -C /repo worktree prune
git -C /repo worktree add -q $W HEAD || exit 3
for d in /verif/seeded/${1:-*}/; do
  id=$(basename $d); P=$d/patch.diff; [ -f $d/patch_head.diff ] && P=$d/patch_head.diff
  props=$(python3 - $d/meta.json <<'PY'
import json,sys
m=json.load(open(sys.argv[1]))
det=m.get("detection",{})
c=det.get("caught_by_after") or det.get("caught_by") or list((m.get("checks") or {}).keys()) or [m.get("property")]
print(" ".join(sorted({x.split()[0] for x in c})))
PY
)
  if python3 -c "import json,sys; sys.exit(0 if json.load(open('$d/meta.json')).get('obsolete') else 1)"; then echo "$id: OBSOLETE (the code it changes no longer decides the property: see meta.json)"; continue; fi
  if ! git -C $W apply $P 2>/dev/null; then echo "$id: PATCH DOES NOT APPLY"; continue; fi
  for p in $props; do
    O=$(/verif/tools/mutrun.sh $W $p quick 2>&1); rc=$?
    echo "$id: $p rc=$rc $(echo "$O" | grep -c '^VIOLATION') violation line(s); $(echo "$O" | grep -E 'signature' | head -1 | cut -c1-160)"
  done
  git -C $W checkout -q -- . 
done
git -C /repo worktree remove --force $W; git -C /repo worktree prune
