//! C06 part 2: explicit-state exploration of derive_more's `DebugTuple` builder against
//! `core::fmt::DebugTuple`: states = (name, operation sequence, terminal, formatter spec, write-fault point),
//! explored breadth-first (shortest sequences first); oracle = same bytes and same `Result`.
use std::fmt::{self, Debug, Write};

#[derive(Clone, Copy, Debug, PartialEq)]
enum Op {
    Int,
    Str,
    Nested,
    Failing,
}
const OPS: [Op; 4] = [Op::Int, Op::Str, Op::Nested, Op::Failing];

struct Nested;
impl Debug for Nested {
    fn fmt(&self, f: &mut fmt::Formatter<'_>) -> fmt::Result {
        f.debug_struct("Nested").field("x", &1).field("y", &"p\nq").finish()
    }
}
struct Failing;
impl Debug for Failing {
    fn fmt(&self, _: &mut fmt::Formatter<'_>) -> fmt::Result {
        Err(fmt::Error)
    }
}

#[derive(Clone, Copy, PartialEq)]
enum Which {
    Subject,
    Std,
    KnownModel,
}

struct Probe<'a> {
    which: Which,
    name: &'a str,
    ops: &'a [Op],
    non_exhaustive: bool,
}

fn val(op: Op) -> &'static dyn Debug {
    match op {
        Op::Int => &255i32,
        Op::Str => &"a\nb",
        Op::Nested => &Nested,
        Op::Failing => &Failing,
    }
}

impl Debug for Probe<'_> {
    fn fmt(&self, f: &mut fmt::Formatter<'_>) -> fmt::Result {
        match self.which {
            Which::Subject => {
                let mut b = derive_more::__private::debug_tuple(f, self.name);
                for op in self.ops {
                    b.field(val(*op));
                }
                if self.non_exhaustive {
                    b.finish_non_exhaustive()
                } else {
                    b.finish()
                }
            }
            Which::Std | Which::KnownModel => {
                let alt = f.alternate();
                let mut b = f.debug_tuple(self.name);
                for op in self.ops {
                    if self.which == Which::KnownModel && alt {
                        b.field(&format_args!("{:#?}", val(*op)));
                    } else {
                        b.field(val(*op));
                    }
                }
                if self.non_exhaustive {
                    b.finish_non_exhaustive()
                } else {
                    b.finish()
                }
            }
        }
    }
}

/// A sink that accepts exactly `limit` bytes and fails (stickily) afterwards.
struct Sink {
    buf: String,
    limit: usize,
}
impl Write for Sink {
    fn write_str(&mut self, s: &str) -> fmt::Result {
        let room = self.limit.saturating_sub(self.buf.len());
        if s.len() <= room {
            self.buf.push_str(s);
            Ok(())
        } else {
            let mut cut = room;
            while !s.is_char_boundary(cut) {
                cut -= 1;
            }
            self.buf.push_str(&s[..cut]);
            self.limit = self.buf.len(); // sticky
            Err(fmt::Error)
        }
    }
}

macro_rules! specs {
    ($($s:literal),* $(,)?) => {
        const SPECS: &[&str] = &[$($s),*];
        fn fmt_with(i: usize, sink: &mut Sink, p: &Probe<'_>) -> fmt::Result {
            let mut n = 0usize;
            $( if i == n { return write!(sink, concat!("{:", $s, "}"), p); } n += 1; )*
            let _ = n;
            unreachable!()
        }
    };
}
specs!("?", "#?", "x?", "#x?", "X?", "#X?", "5?", "#5?", "*<9?", "*<#9?", ">12?", ">#12?", "+?", "+#?", "08?", "#08?", ".1?", "#.1?", "+08.1x?", "+#08.1x?", "^7?", "^#7?", "-?", "-#?");

fn render(which: Which, name: &str, ops: &[Op], ne: bool, spec: usize, limit: usize) -> (String, bool) {
    let mut sink = Sink { buf: String::new(), limit };
    let p = Probe { which, name, ops, non_exhaustive: ne };
    let r = fmt_with(spec, &mut sink, &p);
    (sink.buf, r.is_ok())
}

fn main() {
    let args: Vec<String> = std::env::args().collect();
    let depth: usize = args.iter().position(|a| a == "--depth").and_then(|i| args.get(i + 1)).map(|s| s.parse().unwrap()).unwrap_or(3);
    let mut states = 0u64;
    let mut transitions = 0u64;
    let mut agree = 0u64;
    let mut known = 0u64;
    let mut known_witness = String::new();
    let mut known_detail = String::new();
    let mut fault_points = 0u64;
    let mut violations: Vec<serde_json::Value> = Vec::new();
    let mut samples: Vec<serde_json::Value> = Vec::new();
    let mut seen_sig = std::collections::BTreeSet::new();
    // breadth-first over operation sequences
    let mut frontier: Vec<Vec<Op>> = vec![vec![]];
    for d in 0..=depth {
        for ops in &frontier {
            for name in ["", "N"] {
                for ne in [false, true] {
                    for spec in 0..SPECS.len() {
                        let (full_std, ok_std) = render(Which::Std, name, ops, ne, spec, usize::MAX);
                        // every prefix length of the output is a fault point (plus "no fault")
                        let mut limits: Vec<usize> = (0..=full_std.len()).collect();
                        limits.push(usize::MAX);
                        for limit in limits {
                            states += 1;
                            transitions += ops.len() as u64 + 2;
                            if limit != usize::MAX {
                                fault_points += 1;
                            }
                            let s = render(Which::Std, name, ops, ne, spec, limit);
                            let m = render(Which::Subject, name, ops, ne, spec, limit);
                            if s == m {
                                agree += 1;
                                continue;
                            }
                            let k = render(Which::KnownModel, name, ops, ne, spec, limit);
                            let w = format!("debug_tuple({name:?}){}{} under {{:{}}} with the sink failing after {} bytes",
                                ops.iter().map(|o| format!(".field({o:?})")).collect::<String>(), if ne { ".finish_non_exhaustive()" } else { ".finish()" }, SPECS[spec],
                                if limit == usize::MAX { "no".to_string() } else { limit.to_string() });
                            let det = format!("derive_more: {:?} ok={}  std: {:?} ok={}", m.0, m.1, s.0, s.1);
                            if k == m && SPECS[spec].contains('#') && SPECS[spec] != "#?" {
                                known += 1;
                                if known_witness.is_empty() {
                                    known_witness = w;
                                    known_detail = det;
                                }
                                continue;
                            }
                            let sig = format!("{} output differs ({} mode{})", if m.1 != s.1 { "Result and/or" } else { "" },
                                if SPECS[spec].contains('#') { "pretty" } else { "plain" }, if limit == usize::MAX { "" } else { ", failing sink" });
                            if seen_sig.insert(sig.clone()) {
                                violations.push(serde_json::json!({"signature": sig, "witness": w, "detail": det}));
                            }
                        }
                        if samples.len() < 4 && d == 2 && spec % 7 == 1 && ok_std {
                            samples.push(serde_json::json!({"ops": format!("{ops:?}"), "name": name, "non_exhaustive": ne, "spec": SPECS[spec], "std_output": full_std}));
                        }
                    }
                }
            }
        }
        let mut next = Vec::new();
        for ops in &frontier {
            for o in OPS {
                let mut v = ops.clone();
                v.push(o);
                next.push(v);
            }
        }
        frontier = next;
    }
    println!("{}", serde_json::json!({
        "states": states, "transitions": transitions, "depth": depth, "specs": SPECS.len(), "fault_points": fault_points, "agree": agree,
        "known": known, "known_witness": known_witness, "known_detail": known_detail, "violations": violations, "samples": samples,
    }));
}
