//! C19: expansion is a deterministic pure function of the derive input.
//! `c19 list` | `c19 seq i,j,k [--thread]` (expands the inputs in order, prints the last expansion)
//! | `c19 hasher` (observations of the deterministic-hasher seam).
use crate::*;
use std::hash::{BuildHasher, Hash, Hasher};

pub const INPUTS: &[(&str, &str)] = &[
    ("TryInto", "#[try_into(owned, ref, ref_mut)] enum E { A(u8), B(u16), C(u8, u16), D(String), E2(u8), F(u16, u8), G, H { x: i64 } }"),
    ("FromStr", "enum E { Foo, FOO, Bar, Baz, Qux, qux, Quux }"),
    ("Mul", "struct S(u8, u16, u32, Vec<u8>, u8);"),
    ("MulAssign", "struct S { a: u8, b: u16, c: u32, d: u64 }"),
    ("Error", "enum E<A, B, C> { X { source: A }, Y(B), Z { #[error(source)] c: C, other: u8 }, W(#[error(source)] Box<A>, u8) }"),
    ("From", "enum E { #[from(u8, u16, u32)] A(u64), #[from(forward)] B(String), C(i8, i16), #[from((i32, i64), (i8, i8))] D { x: i64, y: i64 } }"),
    ("Into", "#[into(owned(u16, u32, u64), ref(u8), ref_mut)] struct S(u8);"),
    ("Display", "#[display(\"{a} {b:?} {c:x}\")] #[display(bound(D: Clone, A: Copy))] struct S<A, B, C, D> { a: A, b: B, c: C, d: D }"),
    ("Debug", "enum E<A, B, C> { X(A, B), Y { c: C, #[debug(skip)] a: A }, #[debug(\"{_0:?}\")] Z(B) }"),
    ("AsRef", "struct S { #[as_ref(str, [u8], String)] a: String, #[as_ref] b: u8, #[as_ref(forward)] c: Vec<u16> }"),
    ("Unwrap", "#[unwrap(ref, ref_mut)] enum E<T> { A(T), B(u8, T), C, D(Vec<T>) }"),
    ("TryFrom", "#[try_from(repr)] #[repr(i16)] enum E { A = -3, B, C = 7, D(u8), F }"),
    ("Add", "enum E { A(u8), B { x: u16, y: u32 }, C, D(u8, u8) }"),
    ("MulAssign", "struct S<T, U>(T, U, T, Vec<U>);"),
];

pub fn main(args: &[String]) -> i32 {
    match args.first().map(|s| s.as_str()).unwrap_or("") {
        "list" => {
            for (i, (d, item)) in INPUTS.iter().enumerate() {
                println!("{}", serde_json::json!({"i": i, "derive": d, "item": item}));
            }
            0
        }
        "seq" => {
            let seq: Vec<usize> = args[1].split(',').filter(|s| !s.is_empty()).map(|s| s.parse().unwrap()).collect();
            let on_thread = args.iter().any(|a| a == "--thread");
            let work = move || {
                let mut last = String::new();
                for i in seq {
                    let (d, item) = INPUTS[i];
                    match expand_str(find_derive(d).unwrap(), item) {
                        Outcome::Ok(t) => last = t,
                        other => {
                            last = format!("NOT-OK {other:?}");
                        }
                    }
                }
                last
            };
            let out = if on_thread {
                std::thread::Builder::new().stack_size(3 << 20).spawn(work).unwrap().join().unwrap()
            } else {
                work()
            };
            println!("{out}");
            0
        }
        "hasher" => {
            // two separately constructed hashers must agree, and iteration order must be a function of the keys only
            let h = |s: &str| {
                let mut a = crate::utils::DeterministicState::default().build_hasher();
                s.hash(&mut a);
                a.finish()
            };
            let mut m: crate::utils::HashMap<String, usize> = Default::default();
            let mut set: crate::utils::HashSet<String> = Default::default();
            for i in 0..64 {
                m.insert(format!("key{i}"), i);
                set.insert(format!("k{}", i * 7919 % 101));
            }
            let order: Vec<usize> = m.values().cloned().collect();
            let sorder: Vec<String> = set.iter().cloned().collect();
            println!(
                "{}",
                serde_json::json!({"h1": h("derive_more"), "h2": h("derive_more"), "h3": h("other"), "map_order": order, "set_order": sorder})
            );
            0
        }
        _ => 2,
    }
}
