//! C16 explorer: format-argument lists are split where Rust's expression grammar splits them.
//! Subject: `crate::parsing::Expr` (direct) and the private `FmtAttribute` (through expansions).
//! Reference: syn's full `Expr` parser on the same tokens (+ rustc on a sample, done by the Python side).
use crate::*;
use rayon::prelude::*;
use std::collections::BTreeMap;
use std::str::FromStr;
use syn::parse::{Parse, ParseStream, Parser};
use syn::punctuated::Punctuated;
use syn::Token;

pub const E1: &[&str] = &[
    "ident", "[a, b, c, d]", "counter += 1", "async { fut.await }", "a < b", "a > b", "{ let x = (a, b); x }", "invoke(a, b)",
    "foo as f64", "|a, b| a + b", "obj.k", "for pat in expr { break pat; }", "if expr { true } else { false }", "vector[2]", "1",
    "\"foo,bar\"", "loop { break i; }", "format!(\"{}\", q)", "match n { Some(n) => {}, None => {} }", "x.foo::<T>(a, b)",
    "x.foo::<T<[T<T>; if a < b { 1 } else { 2 }]>, { a < b }>(a, b)", "(a + b)", "i32::MAX", "1..2", "&a", "[0u8; N]",
    "(a, b, c, d)", "<Ty as Trait>::T", "<Ty<Ty<T>, { a < b }> as Trait<T>>::T",
    // beyond the unit test's list
    "*_0 as Id<i32, u8>", "f::<A, B>()", "<A as T<B, C>>::X", "x as M<K, V>", "|| 1", "|a: M<K, V>, b| a", "move |a| -> M<K, V> { a }",
    "a | b", "a || b", "a & b", "a << 2", "a >> 2", "a >= b", "a <= b", "n == b", "a != b", "a..=b", "..", "-a", "!a", "a?",
    "r#try", "'x: loop { break 'x 1; }", "','", "b\"a,b\"", "S { a: 1, b: 2 }.a", "vec![1, 2]", "x.0.1", "a::<B>::C",
    "Foo::<{ 1 + 1 }>::bar()", "if let A | B = x { 1 } else { 2 }", "&mut a", "unsafe { f(a, b) }", "a.b::<C, D>().e",
    "x as fn(A, B) -> C", "self.0", "*self",
    // `<` directly followed by punctuation, nested qualified paths, arrows and other `>`-bearing tokens inside generic arguments
    "<&str as T<A, B>>::X", "<<A as B>::C as T<D, E>>::X", "<*const u8 as T<A, B>>::X", "<(A, B) as T<C, D>>::X", "<[u8] as T<A, B>>::X",
    "<Vec<&u8> as T<A, B>>::X", "pair::<Option<fn(u8) -> u8>, u8>()", "f::<&'static str, -1>()", "f::<{ a >= b }, B>()", "x.m::<fn() -> A, B>(c, d)",
    "<A as T<fn(B) -> C, D>>::X", "f::<A, B>::<C, D>()", "<A as T<B, C>>::f::<D, E>()",
    // a `>` / `>>` operator followed by a global path: after `a < b,` or `a << 2,` the pair must not read as `<..>::` (h5)
    "c > ::core::primitive::u8::MIN", "8u32 >> ::core::primitive::u32::MIN", "1u32 << 2",
    // a struct literal outside any delimiter together with a construct that needs the expression grammar to be kept in one piece
    "S { a: 1, b: 2 }.a as M<K, V>", "S { a: x as M<K, V>, b: 2 }", "S { a: 1, b: 2 }.a | c", "if a { S { a: 1, b: 2 } } else { d }.a as M<K, V>",
];

/// one-level contexts for E2; `@` is the hole
pub const CONTEXTS: &[&str] = &["(@)", "f(@, 0)", "[@]", "@ + 1", "!@", "{ @ }", "|q| @", "&@"];

#[derive(Debug)]
struct RefArg {
    alias: Option<syn::Ident>,
    expr: syn::Expr,
}
impl Parse for RefArg {
    fn parse(input: ParseStream) -> syn::Result<Self> {
        // format_args!: `ident = expr` is a named argument iff the next token is exactly `=`
        let fork = input.fork();
        let mut alias = None;
        if let Ok(id) = fork.parse::<syn::Ident>() {
            if fork.peek(Token![=]) && !fork.peek(Token![==]) && !fork.peek(Token![=>]) {
                alias = Some(id);
            }
        }
        if alias.is_some() {
            let _: syn::Ident = input.parse()?;
            let _: Token![=] = input.parse()?;
        }
        Ok(RefArg { alias, expr: input.parse()? })
    }
}

fn is_plain_ident(e: &syn::Expr) -> bool {
    match e {
        syn::Expr::Path(p) => p.attrs.is_empty() && p.qself.is_none() && p.path.get_ident().is_some(),
        _ => false,
    }
}

/// classes of known root causes, decided on the *reference* parse (never on the subject's output)
fn classify(list: &str, reference: &[RefArg]) -> Option<&'static str> {
    use syn::visit::Visit;
    struct V {
        toplevel_closures: usize,
        type_generics_with_comma: bool,
        depth: usize,
    }
    impl<'ast> Visit<'ast> for V {
        fn visit_expr_closure(&mut self, c: &'ast syn::ExprClosure) {
            if self.depth == 0 {
                self.toplevel_closures += 1;
                if let syn::ReturnType::Type(_, t) = &c.output {
                    if type_has_multi_generics(t) {
                        self.type_generics_with_comma = true;
                    }
                }
            }
            // the closure body stays at the same group depth unless it is a block
            syn::visit::visit_expr(self, &c.body);
        }
        fn visit_expr_cast(&mut self, c: &'ast syn::ExprCast) {
            if self.depth == 0 && type_has_multi_generics(&c.ty) {
                self.type_generics_with_comma = true;
            }
            syn::visit::visit_expr_cast(self, c);
        }
        fn visit_block(&mut self, b: &'ast syn::Block) {
            self.depth += 1;
            syn::visit::visit_block(self, b);
            self.depth -= 1;
        }
        fn visit_expr_paren(&mut self, e: &'ast syn::ExprParen) {
            self.depth += 1;
            syn::visit::visit_expr_paren(self, e);
            self.depth -= 1;
        }
        fn visit_expr_tuple(&mut self, e: &'ast syn::ExprTuple) {
            self.depth += 1;
            syn::visit::visit_expr_tuple(self, e);
            self.depth -= 1;
        }
        fn visit_expr_array(&mut self, e: &'ast syn::ExprArray) {
            self.depth += 1;
            syn::visit::visit_expr_array(self, e);
            self.depth -= 1;
        }
        fn visit_expr_call(&mut self, e: &'ast syn::ExprCall) {
            self.visit_expr(&e.func);
            self.depth += 1;
            for a in &e.args {
                self.visit_expr(a);
            }
            self.depth -= 1;
        }
        fn visit_expr_method_call(&mut self, e: &'ast syn::ExprMethodCall) {
            self.visit_expr(&e.receiver);
            self.depth += 1;
            for a in &e.args {
                self.visit_expr(a);
            }
            self.depth -= 1;
        }
        fn visit_expr_index(&mut self, e: &'ast syn::ExprIndex) {
            self.visit_expr(&e.expr);
            self.depth += 1;
            self.visit_expr(&e.index);
            self.depth -= 1;
        }
        fn visit_expr_struct(&mut self, e: &'ast syn::ExprStruct) {
            self.depth += 1;
            syn::visit::visit_expr_struct(self, e);
            self.depth -= 1;
        }
        fn visit_expr_match(&mut self, e: &'ast syn::ExprMatch) {
            self.visit_expr(&e.expr);
            self.depth += 1;
            for a in &e.arms {
                self.visit_arm(a);
            }
            self.depth -= 1;
        }
        fn visit_expr_macro(&mut self, _: &'ast syn::ExprMacro) {}
    }
    fn type_has_multi_generics(t: &syn::Type) -> bool {
        struct T(bool);
        impl<'ast> Visit<'ast> for T {
            fn visit_angle_bracketed_generic_arguments(&mut self, a: &'ast syn::AngleBracketedGenericArguments) {
                if a.args.len() >= 2 && a.colon2_token.is_none() {
                    self.0 = true;
                }
                syn::visit::visit_angle_bracketed_generic_arguments(self, a);
            }
            fn visit_type_bare_fn(&mut self, _: &'ast syn::TypeBareFn) {}
            fn visit_type_tuple(&mut self, _: &'ast syn::TypeTuple) {}
        }
        let mut v = T(false);
        v.visit_type(t);
        v.0
    }
    let mut v = V { toplevel_closures: 0, type_generics_with_comma: false, depth: 0 };
    for a in reference {
        v.visit_expr(&a.expr);
    }
    // top-level `|` puncts in the token stream of the list
    let ts = proc_macro2::TokenStream::from_str(list).ok()?;
    let pipes = ts
        .into_iter()
        .filter(|t| matches!(t, proc_macro2::TokenTree::Punct(p) if p.as_char() == '|'))
        .count();
    // `|=` / `||` operators also contribute `|` puncts; each top-level closure head contributes exactly two
    // The recorded defect pairs up `|` tokens across arguments, which takes at least two of them: a list with a single `|`
    // cannot be affected by it, so a failure there is a different violation.
    if pipes != 2 * v.toplevel_closures && pipes >= 2 {
        return Some("pipe-operator-outside-closure-head");
    }
    if v.type_generics_with_comma {
        return Some("comma-in-type-position-generics");
    }
    None
}

#[derive(Default)]
struct Acc {
    lists: u64,
    checks: u64,
    ref_rejects: u64,
    outcomes: BTreeMap<String, u64>,
    /// (class or "", signature) -> (index, witness, detail, count)
    vio: BTreeMap<(String, String), (u64, String, String, u64)>,
    samples: Vec<String>,
}
impl Acc {
    fn merge(mut self, o: Acc) -> Acc {
        self.lists += o.lists;
        self.checks += o.checks;
        self.ref_rejects += o.ref_rejects;
        for (k, v) in o.outcomes {
            *self.outcomes.entry(k).or_insert(0) += v;
        }
        for (k, v) in o.vio {
            let e = self.vio.entry(k).or_insert((u64::MAX, String::new(), String::new(), 0));
            e.3 += v.3;
            if v.0 < e.0 {
                e.0 = v.0;
                e.1 = v.1;
                e.2 = v.2;
            }
        }
        if self.samples.len() < 6 {
            self.samples.extend(o.samples.into_iter().take(2));
        }
        self
    }
    fn violation(&mut self, idx: u64, class: Option<&'static str>, sig: &str, witness: String, detail: String) {
        let e = self
            .vio
            .entry((class.unwrap_or("").to_string(), sig.to_string()))
            .or_insert((u64::MAX, String::new(), String::new(), 0));
        e.3 += 1;
        if idx < e.0 {
            e.0 = idx;
            e.1 = witness;
            e.2 = detail;
        }
    }
}

/// Spacing-insensitive token text (leaf tokens joined by one space).
fn norm(ts: impl quote::ToTokens) -> String {
    flat(ts.to_token_stream(), false).join(" ")
}

/// Flattens to leaf tokens. With `spacing`, a punct is tagged as joint iff it is `Joint` and the
/// next token is a punct too (the only case in which spacing changes how rustc lexes it).
fn flat(ts: proc_macro2::TokenStream, spacing: bool) -> Vec<String> {
    use proc_macro2::{Delimiter, Spacing, TokenTree};
    let mut out = Vec::new();
    let toks: Vec<TokenTree> = ts.into_iter().collect();
    for (i, t) in toks.iter().enumerate() {
        match t {
            TokenTree::Group(g) => {
                let (o, c) = match g.delimiter() {
                    Delimiter::Parenthesis => ("(", ")"),
                    Delimiter::Brace => ("{", "}"),
                    Delimiter::Bracket => ("[", "]"),
                    Delimiter::None => ("", ""),
                };
                out.push(o.to_string());
                out.extend(flat(g.stream(), spacing));
                out.push(c.to_string());
            }
            TokenTree::Punct(p) => {
                let next_is_punct = matches!(toks.get(i + 1), Some(TokenTree::Punct(_)));
                // (a comma never combines with a following punctuation into one Rust token, so its spacing is immaterial)
                if spacing && p.spacing() == Spacing::Joint && next_is_punct && p.as_char() != ',' {
                    out.push(format!("{}+", p.as_char()));
                } else {
                    out.push(p.as_char().to_string());
                }
            }
            other => {
                let t = other.to_string();
                // `x.0.1`: the lexer yields the float literal `0.1`, syn's tuple-index parsing splits it
                let mut it = t.split('.');
                match (it.next(), it.next(), it.next()) {
                    (Some(a), Some(b), None)
                        if !a.is_empty() && !b.is_empty() && a.bytes().all(|c| c.is_ascii_digit()) && b.bytes().all(|c| c.is_ascii_digit()) =>
                    {
                        out.push(a.to_string());
                        out.push(".".to_string());
                        out.push(b.to_string());
                    }
                    _ => out.push(t),
                }
            }
        }
    }
    out
}

fn contains_seq(hay: &[String], needle: &[String]) -> bool {
    needle.is_empty() || hay.windows(needle.len()).any(|w| w == needle)
}

fn has_bound_t_display(out: &str) -> bool {
    out.contains("T : derive_more :: core :: fmt :: Display")
}

fn check_list(idx: u64, elems: &[String], trailing: bool, alias_mask: u32, integrate: bool, tight: bool, acc: &mut Acc) {
    // `tight`: no whitespace after the separating commas, so that the comma token is `Joint` with a following punctuation
    let sep = if tight { "," } else { ", " };
    acc.lists += 1;
    let display = find_derive("Display").unwrap();
    let mut parts = Vec::new();
    for (i, e) in elems.iter().enumerate() {
        if alias_mask >> i & 1 == 1 {
            parts.push(format!("n{i} = {e}"));
        } else {
            parts.push(e.clone());
        }
    }
    let mut list = parts.join(sep);
    if trailing {
        list.push(',');
    }
    let ts = match proc_macro2::TokenStream::from_str(&list) {
        Ok(t) => t,
        Err(_) => {
            acc.ref_rejects += 1;
            return;
        }
    };
    let reference: Vec<RefArg> = match Punctuated::<RefArg, Token![,]>::parse_terminated.parse2(ts.clone()) {
        Ok(p) => p.into_iter().collect(),
        Err(_) => {
            acc.ref_rejects += 1;
            *acc.outcomes.entry("reference-rejects".into()).or_insert(0) += 1;
            return;
        }
    };
    let class = classify(&list, &reference);
    // ---- direct: crate::parsing::Expr on alias-free lists
    if alias_mask == 0 {
        acc.checks += 1;
        let subj = catch_unwind(AssertUnwindSafe(|| {
            Punctuated::<crate::parsing::Expr, Token![,]>::parse_terminated.parse2(ts.clone())
        }));
        match subj {
            Err(_) => acc.violation(idx, class, "direct: panic", list.clone(), "parsing::Expr panicked".into()),
            Ok(Err(e)) => acc.violation(idx, class, "direct: rejected", list.clone(), format!("reference splits into {} but parsing::Expr fails: {e}", reference.len())),
            Ok(Ok(p)) => {
                let got: Vec<(String, bool)> = p.iter().map(|e| (norm(e), e.ident().is_some())).collect();
                let want: Vec<(String, bool)> = reference.iter().map(|a| (norm(&a.expr), is_plain_ident(&a.expr))).collect();
                if got.len() != want.len() {
                    acc.violation(idx, class, "direct: different number of arguments", list.clone(),
                        format!("reference {} args {:?}; subject {} args {:?}", want.len(), want.iter().map(|w| &w.0).collect::<Vec<_>>(), got.len(), got.iter().map(|w| &w.0).collect::<Vec<_>>()));
                } else if got.iter().zip(&want).any(|(g, w)| g.0 != w.0) {
                    acc.violation(idx, class, "direct: different argument tokens", list.clone(), format!("reference {:?}; subject {:?}", want, got));
                } else if got.iter().zip(&want).any(|(g, w)| g.1 != w.1) {
                    acc.violation(idx, class, "direct: plain-identifier classification differs", list.clone(), format!("reference {:?}; subject {:?}", want, got));
                } else {
                    *acc.outcomes.entry(format!("direct-agree/{}args", got.len())).or_insert(0) += 1;
                }
            }
        }
    }
    if !integrate {
        return;
    }
    // ---- integration A: the derive's own count of arguments, via a sentinel
    let k = reference.len();
    let body = if list.trim().is_empty() { String::new() } else { format!(", {list}") };
    let plain = parts.join(sep);
    let with_sentinel = if parts.is_empty() { "_0".to_string() } else { format!("{plain}{sep}_0") };
    for probe_k in (if trailing { vec![] } else { vec![k, k + 1] }) {
        acc.checks += 1;
        let item = format!("#[display(\"{{{probe_k}}}\", {with_sentinel})] struct S<T>(T);");
        match expand_str(display, &item) {
            Outcome::Ok(out) => {
                let has = has_bound_t_display(&out);
                let want = probe_k == k;
                if has != want {
                    acc.violation(idx, class, "integration: positional index denotes a different argument", item.clone(),
                        format!("reference counts {k} arguments before the sentinel; bound on the sentinel's type for index {probe_k}: expected {want}, got {has}"));
                } else {
                    *acc.outcomes.entry("sentinel-agree".into()).or_insert(0) += 1;
                }
                // verbatim, in order
                if probe_k == k && !parts.is_empty() {
                    let inner = flat(proc_macro2::TokenStream::from_str(&with_sentinel).unwrap(), true);
                    let emitted = flat(proc_macro2::TokenStream::from_str(&out).unwrap(), true);
                    if !contains_seq(&emitted, &inner) {
                        acc.violation(idx, class, "integration: arguments not handed on token for token", item.clone(),
                            format!("expected tokens {:?} inside the emitted write!(..)", inner));
                    }
                }
            }
            Outcome::Err(e) => acc.violation(idx, class, "integration: attribute rejected", item.clone(), e),
            Outcome::Panic { msg, loc } => acc.violation(idx, class, "integration: panic", item.clone(), format!("{msg} @ {loc}")),
            Outcome::ParseFail(m) => {
                *acc.outcomes.entry("item-unparsable".into()).or_insert(0) += 1;
                let _ = m;
            }
        }
    }
    // ---- integration B: alias detection (`{n0}` refers to the alias iff the list defines `n0 = ..`)
    acc.checks += 1;
    let item = format!("#[display(\"{{n0}}\"{body})] struct S<T> {{ n0: T }}");
    if let Outcome::Ok(out) = expand_str(display, &item) {
        let has = has_bound_t_display(&out);
        let alias0 = reference.iter().find(|a| a.alias.as_ref().is_some_and(|i| i == "n0"));
        let want = match alias0 {
            None => true,
            Some(a) => is_plain_ident(&a.expr) && norm(&a.expr) == "n0",
        };
        if has != want {
            acc.violation(idx, class, "integration: `name =` alias recognised differently", item.clone(),
                format!("reference: alias n0 {}; bound on field n0's type expected {want}, got {has}", if alias0.is_some() { "present" } else { "absent" }));
        } else {
            *acc.outcomes.entry("alias-agree".into()).or_insert(0) += 1;
        }
    }
    if acc.samples.len() < 2 && idx % 9973 == 0 {
        acc.samples.push(list);
    }
}

fn arg<'a>(args: &'a [String], name: &str) -> Option<&'a str> {
    args.iter().position(|a| a == name).and_then(|i| args.get(i + 1)).map(|s| s.as_str())
}

pub fn main(args: &[String]) -> i32 {
    let tier = arg(args, "--tier").unwrap_or("quick");
    let thorough = tier == "thorough";
    if args.iter().any(|a| a == "--dump-e1") {
        println!("{}", serde_json::json!({"e1": E1, "contexts": CONTEXTS}));
        return 0;
    }
    let e1: Vec<String> = E1.iter().map(|s| s.to_string()).collect();
    let mut e2: Vec<String> = Vec::new();
    for c in CONTEXTS {
        for e in E1 {
            e2.push(c.replace('@', e));
        }
    }
    // work items: (elements, integrate?)
    let mut work: Vec<(Vec<String>, bool)> = vec![(vec![], true)];
    for a in &e1 {
        work.push((vec![a.clone()], true));
    }
    for a in &e1 {
        for b in &e1 {
            work.push((vec![a.clone(), b.clone()], true));
        }
    }
    for a in &e2 {
        work.push((vec![a.clone()], true));
    }
    if thorough {
        for a in &e1 {
            for b in &e1 {
                for c in &e1 {
                    work.push((vec![a.clone(), b.clone(), c.clone()], false));
                }
            }
        }
        for a in &e2 {
            for b in &e2 {
                work.push((vec![a.clone(), b.clone()], false));
            }
        }
    } else {
        // length 3: every element in the middle of two fixed neighbours, and at both ends
        for a in &e1 {
            work.push((vec!["ident".into(), a.clone(), "1".into()], true));
            work.push((vec![a.clone(), "x.foo::<T>(a, b)".into(), a.clone()], false));
        }
    }
    // LONG arguments (many `else`, `=`, `|`, `return` tokens, none of them nesting deeply) next to arguments the approximate
    // splitter gets wrong: a guard that sends them there because of their length shows here (third reading, of 60f08cd)
    let ladder = format!("{} {{ 999 }}", (0..262).map(|i| format!("if is(_0, {i}) {{ {i} }} else")).collect::<Vec<_>>().join(" "));
    let lets = format!("{{ {} 0 }}", (0..300).map(|i| format!("let a{i} = {i}; ")).collect::<String>());
    let arms = format!("match _0 {{ {} _ => 0 }}", (0..150).map(|i| format!("{} | {} => {i}, ", 2 * i, 2 * i + 1)).collect::<String>());
    let returns = format!("(|| -> u32 {{ match _0 {{ {} _ => 0 }} }})()", (0..300).map(|i| format!("{i} => return {i}, ")).collect::<String>());
    let ors = format!("[{}].len()", (0..130).map(|_| "*_0 == 1 || *_0 == 2".to_string()).collect::<Vec<_>>().join(", "));
    let ors_flat = (0..130).map(|_| "*_0 == 1 || *_0 == 2".to_string()).collect::<Vec<_>>().join(", ");
    work.push((vec!["_0 | 1".into(), "_0 | 2".into(), "_1".into(), ors_flat], false));
    let iflets = format!("{{ {} 7u32 }}", "if let 1 = _0 {} ".repeat(300));
    let ranges = format!("match *_0 {{ {} _ => {{ 8u32 }} }}", (0..300).map(|i| format!("{}..={} => {{ 7u32 }} ", 2 * i, 2 * i + 1)).collect::<String>());
    for big in [&ladder, &lets, &arms, &returns, &ors, &iflets, &ranges] {
        for (a, b) in [("_0 | 1", "_0 | 2"), ("a < b", "c > d"), ("|x| x + 1", "y"), ("S { a: 1 }", "ident")] {
            work.push((vec![a.into(), b.into(), big.clone()], false));
            work.push((vec![big.clone(), a.into(), b.into()], false));
            work.push((vec![a.into(), big.clone(), b.into()], false));
        }
    }
    if let Some(path) = arg(args, "--emit-ref") {
        // alias-free, non-trailing lists with the reference's argument count (bound to rustc by the Python side)
        let mut lines = Vec::new();
        for (elems, _) in work.iter().filter(|(e, _)| !e.is_empty() && e.len() <= 2) {
            let list = elems.join(", ");
            if let Ok(ts) = proc_macro2::TokenStream::from_str(&list) {
                if let Ok(p) = Punctuated::<RefArg, Token![,]>::parse_terminated.parse2(ts) {
                    if p.iter().all(|a| a.alias.is_none()) {
                        let toks: Vec<String> = p.iter().map(|a| norm(&a.expr)).collect();
                        lines.push(serde_json::json!({"list": list, "k": p.len(), "args": toks}).to_string());
                    }
                }
            }
        }
        std::fs::write(path, lines.join("\n")).unwrap();
    }
    let n = work.len() as u64;
    let acc = work
        .par_iter()
        .enumerate()
        .map(|(i, (elems, integrate))| {
            let mut acc = Acc::default();
            let idx = i as u64;
            for trailing in [false, true] {
                if elems.is_empty() && trailing {
                    continue;
                }
                check_list(idx, elems, trailing, 0, *integrate, false, &mut acc);
                if *integrate && !trailing {
                    check_list(idx, elems, trailing, 0, true, true, &mut acc);
                }
            }
            if *integrate && !elems.is_empty() && elems.len() <= 2 {
                for mask in 1..(1u32 << elems.len()) {
                    check_list(idx, elems, false, mask, true, false, &mut acc);
                }
            }
            acc
        })
        .reduce(Acc::default, Acc::merge);
    let vio: Vec<serde_json::Value> = acc
        .vio
        .iter()
        .map(|((class, sig), (i, w, d, c))| serde_json::json!({"class": class, "signature": sig, "index": i, "witness": w, "detail": d, "count": c}))
        .collect();
    println!(
        "{}",
        serde_json::json!({
            "e1": E1.len(), "e2": e2.len(), "work_items": n, "lists": acc.lists, "checks": acc.checks, "reference_rejects": acc.ref_rejects,
            "outcomes": acc.outcomes, "violations": vio, "samples": acc.samples,
        })
    );
    0
}
