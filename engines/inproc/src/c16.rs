pub fn main(_args: &[String]) -> i32 { 2 }
