//! `fp`: expansion fingerprints.  JSON lines in (`{"derive":..,"item":..}`), one line out per request:
//! `<kind> <fnv64 of the outcome text>`.  Used by tools/mutation_gaps.py (a diagnostic aid, not a check) to tell whether a
//! source mutant changes any expansion of the request corpus the checks explore.
use crate::*;
use rayon::prelude::*;
use std::io::{BufRead, Write};

fn fnv(s: &str) -> u64 {
    let mut h: u64 = 0xcbf29ce484222325;
    for b in s.as_bytes() {
        h ^= *b as u64;
        h = h.wrapping_mul(0x100000001b3);
    }
    h
}

pub fn main(_args: &[String]) -> i32 {
    let stdin = std::io::stdin();
    let lines: Vec<String> = stdin.lock().lines().map(|l| l.unwrap()).collect();
    let out: Vec<String> = lines
        .par_iter()
        .map(|line| {
            let Ok(v) = serde_json::from_str::<serde_json::Value>(line) else { return "badreq 0".to_string() };
            let Some(d) = find_derive(v["derive"].as_str().unwrap_or("")) else { return "badreq 0".to_string() };
            match expand_str(d, v["item"].as_str().unwrap_or("")) {
                Outcome::Ok(t) => format!("ok {:016x}", fnv(&t)),
                Outcome::Err(m) => format!("err {:016x}", fnv(&m)),
                Outcome::Panic { msg, .. } => format!("panic {:016x}", fnv(&msg)),
                Outcome::ParseFail(_) => "parsefail 0".to_string(),
            }
        })
        .collect();
    let stdout = std::io::stdout();
    let mut w = std::io::BufWriter::new(stdout.lock());
    for l in out {
        writeln!(w, "{l}").unwrap();
    }
    0
}
