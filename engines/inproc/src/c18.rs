//! C18 explorers: totality of the literal parser and of every expander over
//!  (lit)  all strings up to a length bound as format literals in every literal position,
//!  (tok)  all attribute token sequences up to a length bound for every helper attribute x position.
//! Index-addressable spaces (`--lo/--hi`) so the Python side can bisect an abort or a hang.
use crate::*;
use rayon::prelude::*;
use std::collections::BTreeMap;
use std::sync::Mutex;

pub const SIGMA: &[&str] = &[
    "{", "}", ":", "$", ".", "*", "<", "^", ">", "+", "-", "#", "?", "0", "1", "9", "a", "x", "X", "o", "p", "b", "e", "E",
    "_", "z", " ", "\t", "é", "€", "😀", "\u{3000}", "\u{663}", "\u{b7}", // (MIDDLE DOT: XID_Continue, neither alphabetic nor numeric) non-ASCII White_Space (std::fmt skips every Unicode whitespace); XID_Continue but not XID_Start (ARABIC-INDIC DIGIT THREE)
];

/// index -> string over SIGMA, length-first (all strings of length 0, then 1, ...).
pub fn nth_string(mut idx: u64, sigma: &[&str]) -> String {
    let k = sigma.len() as u64;
    let mut len = 0u32;
    let mut block = 1u64;
    while idx >= block {
        idx -= block;
        block *= k;
        len += 1;
    }
    let mut parts = Vec::with_capacity(len as usize);
    for _ in 0..len {
        parts.push(sigma[(idx % k) as usize]);
        idx /= k;
    }
    parts.reverse();
    parts.concat()
}

pub fn count_strings(maxlen: u32, k: u64) -> u64 {
    let mut total = 0;
    let mut block = 1;
    for _ in 0..=maxlen {
        total += block;
        block *= k;
    }
    total
}

#[derive(Default)]
pub struct Tally {
    pub kinds: BTreeMap<String, u64>,
    /// signature -> (index, witness, detail)
    pub internal: BTreeMap<String, (u64, String, String)>,
    pub max_us: u128,
    pub slow: Vec<(u128, String)>,
}

impl Tally {
    pub fn add(&mut self, idx: u64, o: &Outcome, witness: impl FnOnce() -> String, us: u128) {
        let k = match o {
            Outcome::Ok(_) => "ok".to_string(),
            Outcome::Err(_) => "err".to_string(),
            Outcome::ParseFail(_) => "unparsable-item".to_string(),
            Outcome::Panic { loc, msg } => {
                let c = classify_panic(loc);
                if c == "internal" {
                    let sig = format!("{} @ {}", generalize(msg), strip_col(loc));
                    let e = self.internal.entry(sig).or_insert((u64::MAX, String::new(), String::new()));
                    if idx < e.0 {
                        *e = (idx, witness(), format!("{msg} @ {loc}"));
                    }
                    "panic-internal".to_string()
                } else {
                    "panic-deliberate".to_string()
                }
            }
        };
        *self.kinds.entry(k).or_insert(0) += 1;
        if us > self.max_us {
            self.max_us = us;
        }
    }
    pub fn merge(mut self, other: Tally) -> Tally {
        for (k, v) in other.kinds {
            *self.kinds.entry(k).or_insert(0) += v;
        }
        for (k, v) in other.internal {
            let e = self.internal.entry(k).or_insert((u64::MAX, String::new(), String::new()));
            if v.0 < e.0 {
                *e = v;
            }
        }
        self.max_us = self.max_us.max(other.max_us);
        self
    }
    pub fn json(&self) -> serde_json::Value {
        serde_json::json!({
            "kinds": self.kinds,
            "max_us": self.max_us as u64,
            "internal": self.internal.iter().map(|(sig, (i, w, d))| serde_json::json!({"signature": sig, "index": i, "witness": w, "detail": d})).collect::<Vec<_>>(),
        })
    }
}

fn strip_col(loc: &str) -> String {
    // file:line:col -> file:line
    match loc.rfind(':') {
        Some(p) => loc[..p].to_string(),
        None => loc.to_string(),
    }
}

/// Replaces quoted payloads / numbers in panic messages so one root cause is one signature.
fn generalize(msg: &str) -> String {
    let mut out = String::new();
    let mut in_q = false;
    for c in msg.chars() {
        match c {
            '"' | '`' => {
                in_q = !in_q;
                out.push(c);
            }
            _ if in_q => {}
            d if d.is_ascii_digit() => out.push('N'),
            _ => out.push(c),
        }
    }
    out.chars().take(120).collect()
}

fn lit_item(pos: usize, s: &str) -> (&'static str, syn::DeriveInput) {
    let lit = syn::LitStr::new(s, proc_macro2::Span::call_site());
    match pos {
        0 => ("Display", syn::parse_quote! { #[display(#lit)] struct S<T>(T, T); }),
        1 => ("Display", syn::parse_quote! { enum E<T> { #[display(#lit)] A(T, T), B } }),
        2 => ("Display", syn::parse_quote! { #[display(#lit)] enum E<T> { A(T), #[display("own {_0}")] B(T), C } }),
        3 => ("Debug", syn::parse_quote! { #[debug(#lit)] struct S<T>(T, T); }),
        4 => ("Debug", syn::parse_quote! { struct S<T> { #[debug(#lit)] a: T, b: T } }),
        5 => ("Display", syn::parse_quote! { #[display(#lit, _0, x = _1)] struct S<T>(T, T); }),
        6 => ("LowerHex", syn::parse_quote! { #[lower_hex(#lit, _variant)] enum E { A, B(u8) } }),
        7 => ("Pointer", syn::parse_quote! { #[pointer(#lit)] struct S<'a> { a: &'a u8, r#type: &'a u8 } }),
        _ => unreachable!(),
    }
}
pub const LIT_POSITIONS: usize = 8;

fn arg<'a>(args: &'a [String], name: &str) -> Option<&'a str> {
    args.iter().position(|a| a == name).and_then(|i| args.get(i + 1)).map(|s| s.as_str())
}

pub fn main(args: &[String]) -> i32 {
    let sub = args.first().map(|s| s.as_str()).unwrap_or("");
    match sub {
        "lit" => lit_main(&args[1..]),
        "tok" => tok_main(&args[1..]),
        "parser" => parser_main(&args[1..]),
        "witness" => witness_main(&args[1..]),
        _ => {
            eprintln!("usage: c18 lit|tok|parser --len L [--lo A --hi B]");
            2
        }
    }
}

/// Direct calls into the literal parser (`format_string`, `format`) on every string up to a bound.
fn parser_main(args: &[String]) -> i32 {
    let maxlen: u32 = arg(args, "--len").unwrap_or("4").parse().unwrap();
    let total = count_strings(maxlen, SIGMA.len() as u64);
    let lo: u64 = arg(args, "--lo").map(|s| s.parse().unwrap()).unwrap_or(0);
    let hi: u64 = arg(args, "--hi").map(|s| s.parse().unwrap()).unwrap_or(total);
    let chunk = 1u64 << 14;
    let nchunks = (hi - lo + chunk - 1) / chunk;
    let tally = (0..nchunks)
        .into_par_iter()
        .map(|c| {
            let mut t = Tally::default();
            let a = lo + c * chunk;
            let b = (a + chunk).min(hi);
            for idx in a..b {
                let s = nth_string(idx, SIGMA);
                LAST_PANIC.with(|c| *c.borrow_mut() = None);
                let t0 = std::time::Instant::now();
                let r = catch_unwind(AssertUnwindSafe(|| {
                    let a = crate::fmtparse::format_string(&s).map(|f| f.formats.len());
                    let b = crate::fmtparse::format(&s).is_some();
                    (a, b)
                }));
                let us = t0.elapsed().as_micros();
                let o = match r {
                    Ok((Some(_), _)) => Outcome::Ok(String::new()),
                    Ok((None, _)) => Outcome::Err(String::new()),
                    Err(_) => {
                        let (msg, loc) = LAST_PANIC.with(|c| c.borrow_mut().take()).unwrap_or_default();
                        Outcome::Panic { msg, loc }
                    }
                };
                t.add(idx, &o, || format!("{s:?}"), us);
            }
            t
        })
        .reduce(Tally::default, Tally::merge);
    println!("{}", serde_json::json!({"space": "parser", "maxlen": maxlen, "alphabet": SIGMA, "total": total, "lo": lo, "hi": hi, "calls": (hi - lo) * 2, "tally": tally.json()}));
    0
}

fn lit_main(args: &[String]) -> i32 {
    let maxlen: u32 = arg(args, "--len").unwrap_or("3").parse().unwrap();
    let nstr = count_strings(maxlen, SIGMA.len() as u64);
    let total = nstr * LIT_POSITIONS as u64;
    let lo: u64 = arg(args, "--lo").map(|s| s.parse().unwrap()).unwrap_or(0);
    let hi: u64 = arg(args, "--hi").map(|s| s.parse().unwrap()).unwrap_or(total);
    let chunk = 1u64 << 12;
    let nchunks = (hi - lo + chunk - 1) / chunk;
    let tally = (0..nchunks)
        .into_par_iter()
        .map(|c| {
            let mut t = Tally::default();
            let a = lo + c * chunk;
            let b = (a + chunk).min(hi);
            for idx in a..b {
                let s = nth_string(idx / LIT_POSITIONS as u64, SIGMA);
                let pos = (idx % LIT_POSITIONS as u64) as usize;
                let (dname, ast) = lit_item(pos, &s);
                let d = find_derive(dname).unwrap();
                let t0 = std::time::Instant::now();
                let o = expand_ast(d, &ast);
                let us = t0.elapsed().as_micros();
                t.add(idx, &o, || format!("position {pos} ({dname}) literal {s:?}"), us);
            }
            t
        })
        .reduce(Tally::default, Tally::merge);
    println!("{}", serde_json::json!({"space": "lit", "maxlen": maxlen, "alphabet": SIGMA, "positions": LIT_POSITIONS, "total": total, "lo": lo, "hi": hi, "tally": tally.json()}));
    0
}

pub const TOKENS_FULL: &[&str] = &[
    "ignore", "skip", "forward", "owned", "ref", "ref_mut", "source", "backtrace", "not", "bound", "repr", "types", "rename_all",
    "fmt", "x", "=", ",", "\"s\"", "\"{}\"", "1", "true", "()", "(x)", "(ignore)", "(u8)", "<", ">", "::", "|", "&", "'a", "!",
    "u8", "_0", "(1)", "(\"s\")", "(x, y)", "((x))",
];
pub const TOKENS_SMALL: &[&str] = &[
    "ignore", "forward", "ref", "source", "not", "bound", "repr", "types", "x", "=", ",", "\"{}\"", "1", "(x)", "(u8)", "<", "::", "u8", "owned", "(1)",
];

/// (derive, attribute, template) triples; `@` is replaced by the attribute.
pub fn tok_templates() -> Vec<(&'static Derive, &'static str, &'static str)> {
    const TEMPLATES: &[&str] = &[
        "@ struct S { a: u8, b: u8 }",
        "struct S { @ a: u8, b: u8 }",
        "@ struct S(u8);",
        "struct S(@ u8);",
        "@ enum E { V(u8), W }",
        "enum E { @ V(u8), W }",
        "enum E { V(@ u8), W { @ n: u8 } }",
        "@ enum E { V, W }",
    ];
    let mut out = Vec::new();
    for d in DERIVES {
        for a in d.attrs {
            for t in TEMPLATES {
                out.push((d, *a, *t));
            }
        }
    }
    out
}

fn tok_main(args: &[String]) -> i32 {
    let maxlen: u32 = arg(args, "--len").unwrap_or("3").parse().unwrap();
    let small = args.iter().any(|a| a == "--small");
    let alphabet = if small { TOKENS_SMALL } else { TOKENS_FULL };
    let templates = tok_templates();
    let nseq = count_strings(maxlen, alphabet.len() as u64);
    let total = nseq * templates.len() as u64;
    let lo: u64 = arg(args, "--lo").map(|s| s.parse().unwrap()).unwrap_or(0);
    let hi: u64 = arg(args, "--hi").map(|s| s.parse().unwrap()).unwrap_or(total);
    let spaced: Vec<String> = alphabet.iter().map(|t| format!(" {t} ")).collect();
    let spaced_ref: Vec<&str> = spaced.iter().map(|s| s.as_str()).collect();
    let chunk = 1u64 << 12;
    let nchunks = (hi - lo + chunk - 1) / chunk;
    let tally = (0..nchunks)
        .into_par_iter()
        .map(|c| {
            let mut t = Tally::default();
            let a = lo + c * chunk;
            let b = (a + chunk).min(hi);
            for idx in a..b {
                let (d, attr, tmpl) = templates[(idx % templates.len() as u64) as usize];
                let seq = nth_string(idx / templates.len() as u64, &spaced_ref);
                // index 0 is the bare `#[attr]`, everything else `#[attr(seq)]` (incl. the empty `#[attr()]` via a dedicated token-less entry below)
                let attr_text = if idx / (templates.len() as u64) == 0 { format!("#[{attr}]") } else { format!("#[{attr}({seq})]") };
                let item = tmpl.replace('@', &attr_text);
                let t0 = std::time::Instant::now();
                let o = expand_str(d, &item);
                let us = t0.elapsed().as_micros();
                t.add(idx, &o, || format!("derive({}) on: {}", d.name, item), us);
            }
            t
        })
        .reduce(Tally::default, Tally::merge);
    println!("{}", serde_json::json!({"space": "tok", "maxlen": maxlen, "alphabet": alphabet, "templates": templates.len(), "total": total, "lo": lo, "hi": hi, "tally": tally.json()}));
    0
}

/// Prints the input at one index of a space without running it (used after bisecting an abort/hang).
fn witness_main(args: &[String]) -> i32 {
    let space = args.first().map(|s| s.as_str()).unwrap_or("");
    let idx: u64 = arg(args, "--idx").unwrap().parse().unwrap();
    let w = match space {
        "parser" => format!("{:?}", nth_string(idx, SIGMA)),
        "lit" => {
            let s = nth_string(idx / LIT_POSITIONS as u64, SIGMA);
            format!("position {} literal {:?}", idx % LIT_POSITIONS as u64, s)
        }
        "tok" => {
            let small = args.iter().any(|a| a == "--small");
            let alphabet = if small { TOKENS_SMALL } else { TOKENS_FULL };
            let templates = tok_templates();
            let spaced: Vec<String> = alphabet.iter().map(|t| format!(" {t} ")).collect();
            let spaced_ref: Vec<&str> = spaced.iter().map(|s| s.as_str()).collect();
            let (d, attr, tmpl) = templates[(idx % templates.len() as u64) as usize];
            let seq = nth_string(idx / templates.len() as u64, &spaced_ref);
            let attr_text = if idx / (templates.len() as u64) == 0 { format!("#[{attr}]") } else { format!("#[{attr}({seq})]") };
            format!("derive({}) on: {}", d.name, tmpl.replace('@', &attr_text))
        }
        _ => return 2,
    };
    println!("{w}");
    0
}
