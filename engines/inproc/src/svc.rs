//! Batch expansion service: JSON lines in (`{"id":..,"derive":..,"item":..}`), JSON lines out.
use crate::*;
use rayon::prelude::*;
use std::io::{BufRead, Write};

pub fn outcome_json(id: &serde_json::Value, o: &Outcome, micros: u128) -> serde_json::Value {
    match o {
        Outcome::Ok(t) => serde_json::json!({"id": id, "k": "ok", "out": t, "us": micros as u64}),
        Outcome::Err(m) => serde_json::json!({"id": id, "k": "err", "msg": m, "us": micros as u64}),
        Outcome::Panic { msg, loc } => serde_json::json!({
            "id": id, "k": "panic", "msg": msg, "loc": loc, "class": classify_panic(loc), "us": micros as u64
        }),
        Outcome::ParseFail(m) => serde_json::json!({"id": id, "k": "parsefail", "msg": m, "us": micros as u64}),
    }
}

/// Items of an expansion as a sorted multiset of token strings, with where-predicates sorted inside each impl
/// (the order of impls and of where-predicates is semantically irrelevant).
pub fn canonical_items(tokens: &str) -> Vec<String> {
    use quote::ToTokens;
    let Ok(mut file) = syn::parse_str::<syn::File>(tokens) else { return vec![format!("UNPARSABLE {tokens}")] };
    let mut out = Vec::new();
    for item in &mut file.items {
        if let syn::Item::Impl(imp) = item {
            if let Some(w) = &mut imp.generics.where_clause {
                let mut preds: Vec<syn::WherePredicate> = w.predicates.iter().cloned().collect();
                preds.sort_by_key(|p| p.to_token_stream().to_string());
                preds.dedup_by_key(|p| p.to_token_stream().to_string());
                w.predicates = preds.into_iter().collect();
            }
        }
        // (token trees, not text: user tokens are pasted with the `Spacing` they were written with, `x =* y` vs `x = * y`)
        out.push(strip_spacing(&item.to_token_stream()));
    }
    out.sort();
    out
}

fn group_field_types(ast: &mut syn::DeriveInput) {
    fn wrap(fields: &mut syn::Fields) {
        for f in fields.iter_mut() {
            let ty = f.ty.clone();
            f.ty = syn::Type::Group(syn::TypeGroup { group_token: Default::default(), elem: Box::new(ty) });
        }
    }
    match &mut ast.data {
        syn::Data::Struct(s) => wrap(&mut s.fields),
        syn::Data::Enum(e) => e.variants.iter_mut().for_each(|v| wrap(&mut v.fields)),
        syn::Data::Union(u) => {
            for f in u.fields.named.iter_mut() {
                let ty = f.ty.clone();
                f.ty = syn::Type::Group(syn::TypeGroup { group_token: Default::default(), elem: Box::new(ty) });
            }
        }
    }
}

/// Puts an attribute that belongs to nobody's derive (`#[doc(hidden)]`, `#[allow(dead_code)]`, a tool attribute) on the item, on
/// every variant and on every field.
fn decorate_foreign(ast: &mut syn::DeriveInput, which: usize, text: Option<&str>) {
    use syn::parse::Parser;
    let attr: syn::Attribute = match text.and_then(|t| syn::Attribute::parse_outer.parse_str(t).ok()).and_then(|mut v| v.pop()) {
        Some(a) => a, // e.g. the helper attribute of ANOTHER derive (`#[into_iterator(ref)]` while deriving Into)
        None => match which % 3 {
            0 => syn::parse_quote!(#[doc(hidden)]),
            1 => syn::parse_quote!(#[allow(dead_code)]),
            _ => syn::parse_quote!(#[rustfmt::skip]),
        },
    };
    fn fields(fs: &mut syn::Fields, attr: &syn::Attribute) {
        for f in fs.iter_mut() {
            f.attrs.insert(0, attr.clone());
            f.attrs.push(attr.clone());
        }
    }
    ast.attrs.push(attr.clone());
    match &mut ast.data {
        syn::Data::Struct(s) => fields(&mut s.fields, &attr),
        syn::Data::Enum(e) => {
            for v in e.variants.iter_mut() {
                v.attrs.insert(0, attr.clone());
                v.attrs.push(attr.clone());
                fields(&mut v.fields, &attr);
            }
        }
        syn::Data::Union(u) => {
            for f in u.fields.named.iter_mut() {
                f.attrs.push(attr.clone());
            }
        }
    }
}

/// The item's tokens printed with as little (`tight`) or as much (`!tight`) whitespace as the lexer allows: the token *trees* are the
/// same, only `Spacing` of punctuation differs (`_0,*_1` has a comma that is `Joint` with the star).
fn respace(ts: proc_macro2::TokenStream, tight: bool, out: &mut String) {
    use proc_macro2::{Delimiter, TokenTree};
    // two-character prefixes of Rust's multi-character operators: these must not be glued together
    const GLUE: &[&str] = &["::", "->", "=>", "==", "!=", "<=", ">=", "&&", "||", "+=", "-=", "*=", "/=", "%=", "^=", "&=", "|=", "<<", ">>", "..", "<-", "//", "/*", "*/"];
    let mut prev_joint = false;
    for tt in ts {
        let text = match &tt {
            TokenTree::Group(g) => {
                let (o, c) = match g.delimiter() {
                    Delimiter::Parenthesis => ("(", ")"),
                    Delimiter::Brace => ("{", "}"),
                    Delimiter::Bracket => ("[", "]"),
                    Delimiter::None => ("", ""),
                };
                let mut inner = String::new();
                respace(g.stream(), tight, &mut inner);
                format!("{o}{inner}{c}")
            }
            other => other.to_string(),
        };
        if let Some(last) = out.chars().last() {
            let first = text.chars().next().unwrap_or(' ');
            let wordy = |c: char| c.is_alphanumeric() || c == '_' || c == '"' || c == '\'';
            let pair: String = [last, first].iter().collect();
            let need = if prev_joint && (tight || GLUE.contains(&pair.as_str()) || last == '\'') {
                false // the two puncts form one operator (or a lifetime): keep them together
            } else if wordy(last) && wordy(first) {
                true
            } else if !tight {
                true
            } else {
                GLUE.contains(&pair.as_str()) || (last == '\'' ) || (last == '.' && first.is_ascii_digit()) || (last.is_ascii_digit() && first == '.')
            };
            if need {
                out.push(' ');
            }
        }
        prev_joint = matches!(&tt, TokenTree::Punct(p) if p.spacing() == proc_macro2::Spacing::Joint);
        out.push_str(&text);
    }
}

/// Puts the given outer attribute(s) on the first / last / every field or variant of the item (request key `decorate`:
/// `{"level": "field"|"variant", "which": "first"|"last"|"all", "attr": "#[..]"}`), so that generators can combine helper
/// attributes with arbitrary shapes without a Rust tokenizer of their own.  Returns false if there is nothing to decorate.
fn decorate(ast: &mut syn::DeriveInput, level: &str, which: &str, attr: &str) -> bool {
    use syn::parse::Parser;
    let Ok(attrs) = syn::Attribute::parse_outer.parse_str(attr) else { return false };
    let pick = |n: usize| -> Vec<usize> {
        match which {
            _ if n == 0 => vec![],
            "first" => vec![0],
            "last" => vec![n - 1],
            _ => (0..n).collect(),
        }
    };
    let mut done = false;
    let mut on_fields = |fs: &mut syn::Fields, done: &mut bool| {
        let n = fs.len();
        let idx = pick(n);
        for (i, f) in fs.iter_mut().enumerate() {
            if idx.contains(&i) {
                f.attrs.extend(attrs.iter().cloned());
                *done = true;
            }
        }
    };
    match &mut ast.data {
        syn::Data::Struct(s) => {
            if level == "field" {
                on_fields(&mut s.fields, &mut done);
            }
        }
        syn::Data::Enum(e) => {
            if level == "variant" {
                let idx = pick(e.variants.len());
                for (i, v) in e.variants.iter_mut().enumerate() {
                    if idx.contains(&i) {
                        v.attrs.extend(attrs.iter().cloned());
                        done = true;
                    }
                }
            } else {
                for v in e.variants.iter_mut() {
                    on_fields(&mut v.fields, &mut done);
                }
            }
        }
        syn::Data::Union(_) => {}
    }
    done
}

/// Token trees as text with every token followed by one space: equal for two streams iff they differ in `Spacing` only.
fn strip_spacing(ts: &proc_macro2::TokenStream) -> String {
    use proc_macro2::TokenTree;
    let mut out = String::new();
    for tt in ts.clone() {
        match tt {
            TokenTree::Group(g) => {
                out.push_str(&format!("{:?}[ {} ] ", g.delimiter(), strip_spacing(&g.stream())));
            }
            other => {
                out.push_str(&other.to_string());
                out.push(' ');
            }
        }
    }
    out
}

pub fn main(args: &[String]) -> i32 {
    let serial = args.iter().any(|a| a == "--serial");
    let stdin = std::io::stdin();
    let lines: Vec<String> = stdin.lock().lines().map(|l| l.unwrap()).collect();
    let work = |line: &String| -> String {
        let v: serde_json::Value = match serde_json::from_str(line) {
            Ok(v) => v,
            Err(e) => return serde_json::json!({"k": "badreq", "msg": e.to_string()}).to_string(),
        };
        let id = v.get("id").cloned().unwrap_or(serde_json::Value::Null);
        let dname = v["derive"].as_str().unwrap_or("");
        let item = v["item"].as_str().unwrap_or("");
        let Some(d) = find_derive(dname) else {
            return serde_json::json!({"id": id, "k": "badreq", "msg": format!("unknown derive {dname}")}).to_string();
        };
        let t0 = std::time::Instant::now();
        let mut decorated_text: Option<String> = None;
        let o = if let Some(dec) = v.get("decorate") {
            use quote::ToTokens;
            match std::panic::catch_unwind(|| syn::parse_str::<syn::DeriveInput>(item)) {
                Ok(Ok(mut ast)) => {
                    if decorate(&mut ast, dec["level"].as_str().unwrap_or(""), dec["which"].as_str().unwrap_or(""), dec["attr"].as_str().unwrap_or("")) {
                        decorated_text = Some(ast.to_token_stream().to_string());
                        expand_ast(d, &ast)
                    } else {
                        Outcome::ParseFail("nothing to decorate".into())
                    }
                }
                Ok(Err(e)) => Outcome::ParseFail(e.to_string()),
                Err(_) => Outcome::ParseFail("panic while parsing item".into()),
            }
        } else if v.get("group").and_then(|c| c.as_bool()).unwrap_or(false) {
            // every field type wrapped in a None-delimited group, which is what a derive receives for `$t:ty` fragments of a
            // `macro_rules!`-generated item (`syn::Type::Group`); text alone can never produce this shape
            match std::panic::catch_unwind(|| syn::parse_str::<syn::DeriveInput>(item)) {
                Ok(Ok(mut ast)) => {
                    group_field_types(&mut ast);
                    expand_ast(d, &ast)
                }
                Ok(Err(e)) => Outcome::ParseFail(e.to_string()),
                Err(_) => Outcome::ParseFail("panic while parsing item".into()),
            }
        } else {
            expand_str(d, item)
        };
        let mut j = outcome_json(&id, &o, t0.elapsed().as_micros());
        if let Some(t) = decorated_text {
            j["item"] = serde_json::json!(t);
        }
        if let Some(tight) = v.get("respace").and_then(|c| c.as_bool()) {
            // the same token trees with the least / the most whitespace between them: the outcome must be the same
            if let Ok(ts) = item.parse::<proc_macro2::TokenStream>() {
                let mut text = String::new();
                respace(ts.clone(), tight, &mut text);
                // only if the re-spelled text still is the same token trees (ignoring spacing) is it a fair comparison
                let same_trees = text.parse::<proc_macro2::TokenStream>().map(|t2| strip_spacing(&t2) == strip_spacing(&ts)).unwrap_or(false);
                if same_trees {
                    let o2 = expand_str(d, &text);
                    // the user's own tokens are pasted into the output with their spacing: compare token trees, not text
                    let same = match (&o, &o2) {
                        (Outcome::Ok(a), Outcome::Ok(b)) => a == b || canonical_items(a) == canonical_items(b),
                        (Outcome::Err(a), Outcome::Err(b)) => a == b,
                        (Outcome::Panic { .. }, Outcome::Panic { .. }) => true,
                        (Outcome::ParseFail(_), Outcome::ParseFail(_)) => true,
                        _ => false,
                    };
                    j["respace_same"] = serde_json::json!(same);
                    if !same {
                        j["respace_item"] = serde_json::json!(text);
                        j["respace_out"] = outcome_json(&id, &o2, 0);
                    }
                } else {
                    j["respace_skipped"] = serde_json::json!(text);
                }
            }
        }
        if let Some(which) = v.get("foreign").and_then(|c| c.as_u64()) {
            // the same item with an unrelated attribute before and after the attributes of the item, of every variant and of every
            // field: the outcome must be the same (compared here, so that only a verdict travels)
            if let Ok(Ok(mut ast)) = std::panic::catch_unwind(|| syn::parse_str::<syn::DeriveInput>(item)) {
                decorate_foreign(&mut ast, which as usize, v.get("foreign_text").and_then(|t| t.as_str()));
                let o2 = expand_ast(d, &ast);
                let same = match (&o, &o2) {
                    (Outcome::Ok(a), Outcome::Ok(b)) => a == b || canonical_items(a) == canonical_items(b),
                    (Outcome::Err(a), Outcome::Err(b)) => a == b,
                    (Outcome::Panic { .. }, Outcome::Panic { .. }) => true,
                    (Outcome::ParseFail(_), Outcome::ParseFail(_)) => true,
                    _ => false,
                };
                j["foreign_same"] = serde_json::json!(same);
                if !same {
                    j["foreign_out"] = outcome_json(&id, &o2, 0);
                }
            }
        }
        if v.get("where").and_then(|c| c.as_bool()).unwrap_or(false) {
            // only the where-predicates of the first impl (C04 compares nothing else): saves shipping and re-parsing the text
            if let Outcome::Ok(t) = &o {
                use quote::ToTokens;
                let preds: Vec<String> = syn::parse_str::<syn::File>(t)
                    .ok()
                    .and_then(|f| {
                        f.items.into_iter().find_map(|it| match it {
                            syn::Item::Impl(imp) => Some(
                                imp.generics
                                    .where_clause
                                    .map(|w| w.predicates.iter().map(|p| p.to_token_stream().to_string()).collect())
                                    .unwrap_or_default(),
                            ),
                            _ => None,
                        })
                    })
                    .unwrap_or_else(|| vec!["UNPARSABLE".to_string()]);
                j["where"] = serde_json::json!(preds);
                j["out"] = serde_json::json!("");
            }
        }
        if v.get("parse").and_then(|c| c.as_bool()).unwrap_or(false) {
            // does the result consist of Rust items at all?  (rustc: "proc-macro derive produced unparsable tokens")
            if let Outcome::Ok(t) = &o {
                j["parses"] = serde_json::json!(syn::parse_str::<syn::File>(t).is_ok());
            }
        }
        if v.get("canon").and_then(|c| c.as_bool()).unwrap_or(false) {
            if let Outcome::Ok(t) = &o {
                j["canon"] = serde_json::json!(canonical_items(t));
            }
        }
        j.to_string()
    };
    let out: Vec<String> = if serial {
        lines.iter().map(work).collect()
    } else {
        lines.par_iter().map(work).collect()
    };
    let stdout = std::io::stdout();
    let mut w = std::io::BufWriter::new(stdout.lock());
    for l in out {
        writeln!(w, "{l}").unwrap();
    }
    0
}
