//! C03 explorer (nightly only): the subject's literal parser and the derive's view of placeholders
//! versus rustc's own `rustc_parse_format`, over exhaustively enumerated string spaces.
use crate::c18::{count_strings, nth_string, SIGMA};
use crate::*;
use rayon::prelude::*;
use rustc_parse_format as rpf;
use std::collections::{BTreeMap, BTreeSet};

#[derive(PartialEq, Eq, Debug, Clone, PartialOrd, Ord)]
enum ArgK {
    Implicit,
    Pos(usize),
    Named(String),
}
#[derive(PartialEq, Eq, Debug, Clone)]
enum CountK {
    None,
    Is(usize),
    ParamPos(usize),
    ParamNamed(String),
    Star,
}
#[derive(PartialEq, Eq, Debug, Clone)]
struct Ph {
    arg: ArgK,
    /// resolved index for implicit arguments (reference only; None on the subject side)
    resolved: Option<usize>,
    tr: &'static str,
    hex: u8,
    fill: Option<char>,
    align: u8,
    sign: u8,
    alt: bool,
    zero: bool,
    width: CountK,
    prec: CountK,
}
impl Ph {
    fn flagless(&self) -> bool {
        self.fill.is_none() && self.align == 0 && self.sign == 0 && !self.alt && !self.zero && self.width == CountK::None && self.prec == CountK::None && self.hex == 0
    }
}

fn reference(s: &str) -> Result<Vec<Ph>, String> {
    let mut p = rpf::Parser::new(s, None, None, false, rpf::ParseMode::Format);
    let mut out = Vec::new();
    let pieces: Vec<rpf::Piece<'_>> = (&mut p).collect();
    if let Some(e) = p.errors.first() {
        return Err(e.description.clone());
    }
    for piece in pieces {
        if let rpf::Piece::NextArgument(a) = piece {
            let f = &a.format;
            let (tr, hex) = match (f.ty, f.debug_hex) {
                ("", None) => ("Display", 0),
                ("?", None) => ("Debug", 0),
                ("?", Some(rpf::DebugHex::Lower)) => ("Debug", 1),
                ("?", Some(rpf::DebugHex::Upper)) => ("Debug", 2),
                ("o", None) => ("Octal", 0),
                ("x", None) => ("LowerHex", 0),
                ("X", None) => ("UpperHex", 0),
                ("p", None) => ("Pointer", 0),
                ("b", None) => ("Binary", 0),
                ("e", None) => ("LowerExp", 0),
                ("E", None) => ("UpperExp", 0),
                (other, _) => return Err(format!("unknown format trait `{other}`")),
            };
            let cnt = |c: &rpf::Count<'_>| match c {
                rpf::Count::CountImplied => CountK::None,
                rpf::Count::CountIs(n) => CountK::Is(*n as usize),
                rpf::Count::CountIsParam(i) => CountK::ParamPos(*i),
                rpf::Count::CountIsName(n, _) => CountK::ParamNamed(n.to_string()),
                rpf::Count::CountIsStar(_) => CountK::Star,
            };
            let (arg, resolved) = match a.position {
                rpf::Position::ArgumentImplicitlyIs(i) => (ArgK::Implicit, Some(i)),
                rpf::Position::ArgumentIs(i) => (ArgK::Pos(i), Some(i)),
                rpf::Position::ArgumentNamed(n) => (ArgK::Named(n.to_string()), None),
            };
            out.push(Ph {
                arg,
                resolved,
                tr,
                hex,
                fill: f.fill,
                align: match f.align {
                    rpf::Alignment::AlignLeft => 1,
                    rpf::Alignment::AlignCenter => 2,
                    rpf::Alignment::AlignRight => 3,
                    rpf::Alignment::AlignUnknown => 0,
                },
                sign: match f.sign {
                    None => 0,
                    Some(rpf::Sign::Plus) => 1,
                    Some(rpf::Sign::Minus) => 2,
                },
                alt: f.alternate,
                zero: f.zero_pad,
                width: cnt(&f.width),
                prec: cnt(&f.precision),
            });
        }
    }
    Ok(out)
}

fn subject(s: &str) -> Option<Vec<Ph>> {
    use crate::fmtparse as fp;
    let fs = fp::format_string(s)?;
    let cnt = |c: &fp::Count<'_>| match c {
        fp::Count::Integer(n) => CountK::Is(*n),
        fp::Count::Parameter(fp::Argument::Integer(i)) => CountK::ParamPos(*i),
        fp::Count::Parameter(fp::Argument::Identifier(n)) => CountK::ParamNamed(n.to_string()),
    };
    Some(
        fs.formats
            .iter()
            .map(|f| {
                let arg = match f.arg {
                    None => ArgK::Implicit,
                    Some(fp::Argument::Integer(i)) => ArgK::Pos(i),
                    Some(fp::Argument::Identifier(n)) => ArgK::Named(n.to_string()),
                };
                let mut ph = Ph { arg, resolved: None, tr: "Display", hex: 0, fill: None, align: 0, sign: 0, alt: false, zero: false, width: CountK::None, prec: CountK::None };
                if let Some(sp) = &f.spec {
                    ph.tr = sp.ty.trait_name();
                    ph.hex = match sp.ty {
                        fp::Type::LowerDebug => 1,
                        fp::Type::UpperDebug => 2,
                        _ => 0,
                    };
                    if let Some((fill, al)) = sp.align {
                        ph.fill = fill;
                        ph.align = match al {
                            fp::Align::Left => 1,
                            fp::Align::Center => 2,
                            fp::Align::Right => 3,
                        };
                    }
                    ph.sign = match sp.sign {
                        None => 0,
                        Some(fp::Sign::Plus) => 1,
                        Some(fp::Sign::Minus) => 2,
                    };
                    ph.alt = sp.alternate.is_some();
                    ph.zero = sp.zero_padding.is_some();
                    ph.width = sp.width.as_ref().map(cnt).unwrap_or(CountK::None);
                    ph.prec = match &sp.precision {
                        None => CountK::None,
                        Some(fp::Precision::Star) => CountK::Star,
                        Some(fp::Precision::Count(c)) => cnt(c),
                    };
                }
                ph
            })
            .collect(),
    )
}

#[derive(Default)]
struct Acc {
    n: u64,
    checks: u64,
    outcomes: BTreeMap<String, u64>,
    vio: BTreeMap<String, (u64, String, String, u64)>,
    samples: Vec<String>,
}
impl Acc {
    fn out(&mut self, k: &str) {
        *self.outcomes.entry(k.to_string()).or_insert(0) += 1;
    }
    fn violation(&mut self, idx: u64, sig: String, witness: String, detail: String) {
        let e = self.vio.entry(sig).or_insert((u64::MAX, String::new(), String::new(), 0));
        e.3 += 1;
        if idx < e.0 || (idx == e.0 && witness.len() < e.1.len()) {
            e.0 = idx;
            e.1 = witness;
            e.2 = detail;
        }
    }
    fn merge(mut self, o: Acc) -> Acc {
        self.n += o.n;
        self.checks += o.checks;
        for (k, v) in o.outcomes {
            *self.outcomes.entry(k).or_insert(0) += v;
        }
        for (k, v) in o.vio {
            let e = self.vio.entry(k).or_insert((u64::MAX, String::new(), String::new(), 0));
            e.3 += v.3;
            if v.0 < e.0 {
                e.0 = v.0;
                e.1 = v.1;
                e.2 = v.2;
            }
        }
        if self.samples.len() < 8 {
            self.samples.extend(o.samples.into_iter().take(1));
        }
        self
    }
}

/// what makes a std-accepted literal special (decided on the string and the reference parse only)
fn features(s: &str, r: &[Ph]) -> Vec<&'static str> {
    let mut f = Vec::new();
    // whitespace inside a placeholder
    let mut depth = 0;
    let mut it = s.chars().peekable();
    let mut ws_in = false;
    while let Some(c) = it.next() {
        match c {
            '{' if it.peek() == Some(&'{') && depth == 0 => {
                it.next();
            }
            '}' if it.peek() == Some(&'}') && depth == 0 => {
                it.next();
            }
            '{' => depth += 1,
            '}' => depth = 0,
            c if c.is_whitespace() && depth > 0 => ws_in = true,
            _ => {}
        }
    }
    if ws_in {
        f.push("whitespace-inside-placeholder");
    }
    if r.iter().any(|p| p.prec == CountK::Star) {
        f.push("star-precision");
    }
    if r.iter().any(|p| matches!(&p.arg, ArgK::Named(n) if !n.is_ascii()) || matches!(&p.width, CountK::ParamNamed(n) if !n.is_ascii()) || matches!(&p.prec, CountK::ParamNamed(n) if !n.is_ascii())) {
        f.push("non-ascii-identifier");
    }
    f
}

/// Removes every `.` that is not followed by a count or `*` (std accepts such a lone dot as "no precision").
fn strip_lone_dots(s: &str) -> String {
    let cs: Vec<char> = s.chars().collect();
    let mut out = String::new();
    for (i, c) in cs.iter().enumerate() {
        if *c == '.' {
            let next = cs.get(i + 1).copied().unwrap_or('}');
            let starts_count = if next.is_ascii_digit() || next == '*' {
                true
            } else if next == '_' || unicode_xid::UnicodeXID::is_xid_start(next) {
                // an identifier is a count only when followed by `$`
                let mut j = i + 2;
                while j < cs.len() && unicode_xid::UnicodeXID::is_xid_continue(cs[j]) {
                    j += 1;
                }
                cs.get(j) == Some(&'$')
            } else {
                false
            };
            if !starts_count {
                continue;
            }
        }
        out.push(*c);
    }
    out
}

/// Runs `f` on `s`; if it reports violations and the only thing wrong with `s` is a lone-dot precision
/// (same std placeholders without the dot, and no violation there), they are tagged as that class.
fn with_lone_dot_class(idx: u64, s: &str, acc: &mut Acc, f: &dyn Fn(u64, &str, &mut Acc)) {
    let mut tmp = Acc::default();
    f(idx, s, &mut tmp);
    if !tmp.vio.is_empty() {
        // candidate lone dots; try removing every non-empty subset of them (strings are short)
        let full = strip_lone_dots(s);
        let cs: Vec<char> = s.chars().collect();
        let dots: Vec<usize> = cs.iter().enumerate().filter(|(_, c)| **c == '.').map(|(i, _)| i).collect();
        let mut classified = false;
        if full != s && dots.len() <= 6 {
            // a selected dot is either removed or completed to `.0` (std: a lone dot means "no precision")
            let norm0 = |v: Vec<Ph>| -> Vec<Ph> {
                v.into_iter().map(|mut p| { if p.prec == CountK::Is(0) { p.prec = CountK::None; } p }).collect()
            };
            for mask in 1u32..(2 << dots.len()) {
                let complete = mask >> dots.len() & 1 == 1;
                let sel = mask & ((1 << dots.len()) - 1);
                if sel == 0 {
                    continue;
                }
                let mut t = String::new();
                for (i, c) in cs.iter().enumerate() {
                    let selected = dots.iter().enumerate().any(|(k, d)| *d == i && sel >> k & 1 == 1);
                    if selected {
                        if complete {
                            t.push_str(".0");
                        }
                    } else {
                        t.push(*c);
                    }
                }
                let same_ref = match (reference(s), reference(&t)) {
                    (Ok(a), Ok(b)) => norm0(a) == norm0(b),
                    _ => false,
                };
                if !same_ref {
                    continue;
                }
                let mut tmp2 = Acc::default();
                f(idx, &t, &mut tmp2);
                if tmp2.vio.is_empty() {
                    classified = true;
                    break;
                }
            }
        }
        if classified {
            let vio = std::mem::take(&mut tmp.vio);
            for (k, v) in vio {
                tmp.vio.insert(format!("[lone-dot-precision] {k}"), v);
            }
        }
    }
    let taken = std::mem::take(acc);
    *acc = taken.merge(tmp);
}

fn first_field_diff(a: &Ph, b: &Ph) -> &'static str {
    if a.arg != b.arg {
        "argument"
    } else if a.tr != b.tr || a.hex != b.hex {
        "trait"
    } else if a.fill != b.fill {
        "fill"
    } else if a.align != b.align {
        "align"
    } else if a.sign != b.sign {
        "sign"
    } else if a.alt != b.alt {
        "alternate"
    } else if a.zero != b.zero {
        "zero-flag"
    } else if a.width != b.width {
        "width"
    } else if a.prec != b.prec {
        "precision"
    } else {
        "none"
    }
}

/// Direct comparison of the two parsers on one string.
fn compare_direct(idx: u64, s: &str, acc: &mut Acc) -> (Result<Vec<Ph>, String>, Option<Vec<Ph>>) {
    acc.n += 1;
    acc.checks += 1;
    let r = reference(s);
    let sub = catch_unwind(AssertUnwindSafe(|| subject(s)));
    let sub = match sub {
        Ok(x) => x,
        Err(_) => {
            acc.violation(idx, "subject parser panics".into(), format!("{s:?}"), String::new());
            return (r, None);
        }
    };
    match (&r, &sub) {
        (Ok(rp), Some(sp)) => {
            let same_len = rp.len() == sp.len();
            let mut rs = rp.clone();
            for p in &mut rs {
                p.resolved = None;
            }
            if rs == *sp {
                acc.out(&format!("agree-accept/{}ph", rp.len().min(3)));
            } else {
                let what = if !same_len { "placeholder-count" } else { rs.iter().zip(sp).map(|(a, b)| first_field_diff(a, b)).find(|d| *d != "none").unwrap_or("none") };
                acc.violation(idx, format!("direct: placeholders differ ({what}) {:?}", features(s, rp)), format!("{s:?}"), format!("std: {rs:?}\nderive_more: {sp:?}"));
            }
        }
        (Ok(rp), None) => {
            acc.violation(idx, format!("direct: std accepts, derive_more's parser rejects {:?}", features(s, rp)), format!("{s:?}"), format!("std: {rp:?}"));
        }
        (Err(_), Some(_)) => acc.out("std-rejects/subject-accepts"),
        (Err(_), None) => acc.out("agree-reject"),
    }
    (r, sub)
}

const PROBE_ARGS: &str = "_0, _1, _2, _3, a = _4, _a = _5";

fn bounds_of(out: &str) -> BTreeSet<(usize, String)> {
    // `T3 : derive_more :: core :: fmt :: LowerHex`
    let mut set = BTreeSet::new();
    let Some(w) = out.find(" where ") else { return set };
    let Some(end) = out[w..].find('{') else { return set };
    for pred in out[w + 7..w + end].split(',') {
        let pred = pred.trim();
        if let Some((l, r)) = pred.split_once(" : ") {
            if let Some(i) = l.trim().strip_prefix('T').and_then(|n| n.parse::<usize>().ok()) {
                set.insert((i, r.trim().rsplit("::").next().unwrap_or("").trim().to_string()));
            }
        }
    }
    set
}

fn lit_token(s: &str) -> String {
    syn::LitStr::new(s, proc_macro2::Span::call_site()).token().to_string()
}

/// The derive's view of the placeholders, observed through the expansion of a probe type.
fn probe_struct(idx: u64, s: &str, r: &Result<Vec<Ph>, String>, acc: &mut Acc) {
    acc.checks += 1;
    let lit = lit_token(s);
    let item = format!("#[display({lit}, {PROBE_ARGS})] struct S<T0, T1, T2, T3, T4, T5>(T0, T1, T2, T3, T4, T5);");
    let d = find_derive("Display").unwrap();
    match expand_str(d, &item) {
        Outcome::Ok(out) => {
            let emitted = out.contains(&lit);
            match r {
                Ok(rp) => {
                    let mut want = BTreeSet::new();
                    for p in rp {
                        let i = match (&p.arg, p.resolved) {
                            (ArgK::Named(n), _) => match n.as_str() {
                                "_0" => Some(0),
                                "_1" => Some(1),
                                "_2" => Some(2),
                                "_3" => Some(3),
                                "_4" => Some(4),
                                "_5" => Some(5),
                                "a" => Some(4),
                                "_a" => Some(5),
                                _ => None,
                            },
                            (_, Some(i)) if i < 4 => Some(i),
                            _ => None,
                        };
                        if let Some(i) = i {
                            want.insert((i, p.tr.to_string()));
                        }
                    }
                    // positional references to the named arguments (index 4, 5) are left out: C04's matter
                    let refs_named_by_pos = rp.iter().any(|p| matches!(p.resolved, Some(i) if i >= 4) && !matches!(p.arg, ArgK::Named(_)));
                    // names that denote nothing in the probe: the program cannot compile anyway, no expectation
                    let unknown_name = rp.iter().any(|p| matches!(&p.arg, ArgK::Named(n) if !["_0", "_1", "_2", "_3", "_4", "_5", "a", "_a"].contains(&n.as_str())));
                    let got = bounds_of(&out);
                    if !refs_named_by_pos && !unknown_name && got != want {
                        acc.violation(idx, format!("expansion: bound set differs from std's placeholders {:?}", features(s, rp)), item.clone(),
                            format!("std placeholders: {rp:?}\nexpected bounds {want:?}, expansion has {got:?}"));
                    } else {
                        acc.out("probe-bounds-agree");
                    }
                    if !emitted {
                        // transparent call: must be exactly one flag-free placeholder and nothing else
                        let bare = rp.len() == 1 && rp[0].flagless() && {
                            let t = s.trim_start_matches('{');
                            s.starts_with('{') && s.ends_with('}') && !s.starts_with("{{") && t.len() + 1 == s.len()
                        };
                        if !bare {
                            acc.violation(idx, "expansion: literal dropped (transparent call) although it is not a single bare placeholder".into(), item.clone(), format!("std: {rp:?}"));
                        }
                    }
                }
                Err(e) => {
                    if !emitted {
                        acc.violation(idx, "std-rejected literal silently accepted (struct attribute)".into(), item.clone(), format!("std: {e}; expansion does not hand the literal to rustc:\n{out}"));
                    } else {
                        acc.out("rejected-literal-handed-to-rustc");
                    }
                }
            }
        }
        Outcome::Err(_) => {
            if r.is_ok() {
                acc.violation(idx, "expansion: std-accepted literal rejected by the derive".into(), item, String::new());
            } else {
                acc.out("rejected-literal-derive-errors");
            }
        }
        Outcome::Panic { msg, loc } => acc.violation(idx, "expansion panics".into(), item, format!("{msg} @ {loc}")),
        Outcome::ParseFail(m) => acc.violation(idx, "machinery: probe item unparsable".into(), item, m),
    }
}

/// A std-rejected literal must never be silently accepted, in any literal position.
fn never_silent(idx: u64, s: &str, err: &str, acc: &mut Acc) {
    let lit = lit_token(s);
    let positions: [(&str, &str, String); 7] = [
        ("Display", "variant", format!("enum E<T> {{ #[display({lit}, _0)] A(T), B }}")),
        ("Display", "enum-default", format!("#[display({lit})] enum E {{ A, B(u8) }}")),
        ("Display", "enum-wrapping", format!("#[display({lit}, _variant)] enum E {{ A, #[display(\"b\")] B(u8) }}")),
        ("Display", "enum-level-unused", format!("#[display({lit})] enum E {{ #[display(\"a\")] A, #[display(\"b\")] B(u8) }}")),
        ("Debug", "debug-field", format!("struct S {{ #[debug({lit})] a: u8, b: u8 }}")),
        ("Debug", "debug-struct", format!("#[debug({lit}, _0)] struct S(u8);")),
        ("LowerHex", "lower-hex-struct", format!("#[lower_hex({lit}, _0)] struct S(u8);")),
    ];
    for (dname, pos, item) in positions {
        acc.checks += 1;
        match expand_str(find_derive(dname).unwrap(), &item) {
            Outcome::Ok(out) => {
                if out.contains(&lit) {
                    acc.out("rejected-literal-handed-to-rustc");
                } else {
                    acc.violation(idx, format!("std-rejected literal silently accepted ({pos})"), item, format!("std: {err}"));
                }
            }
            Outcome::Err(_) => acc.out("rejected-literal-derive-errors"),
            Outcome::Panic { msg, loc } => acc.violation(idx, "expansion panics".into(), item, format!("{msg} @ {loc}")),
            Outcome::ParseFail(m) => acc.violation(idx, "machinery: probe item unparsable".into(), item, m),
        }
    }
}

// ---- part 2: grammar derivations from per-slot alphabets
struct Slots {
    arg: Vec<&'static str>,
    ws_before_colon: Vec<&'static str>,
    fill_align: Vec<&'static str>,
    sign: Vec<&'static str>,
    alt: Vec<&'static str>,
    zero: Vec<&'static str>,
    width: Vec<&'static str>,
    prec: Vec<&'static str>,
    ty: Vec<&'static str>,
    trailing: Vec<&'static str>,
}
impl Slots {
    fn new(thorough: bool) -> Slots {
        if thorough {
            Slots {
                arg: vec!["", "0", "1", "10", "a", "_0", "_a", "é", "a\u{663}", "न\u{93e}म", "a\u{b7}b", "e\u{301}", "_\u{203f}"],
                ws_before_colon: vec!["", " ", "\u{a0}", "\u{3000}"],
                fill_align: vec!["", "<", "^", ">", "*<", "0>", "é^", "}<"],
                sign: vec!["", "+", "-"],
                alt: vec!["", "#"],
                zero: vec!["", "0"],
                width: vec!["", "5", "0", "10", "1$", "a$", "0$"],
                prec: vec!["", ".3", ".0", ".1$", ".a$", ".*"],
                ty: vec!["", "?", "x?", "X?", "o", "x", "X", "p", "b", "e", "E", "q", "d"],
                trailing: vec!["", " ", "  ", "\t", "\n", "\u{2028}", "\u{85}"],
            }
        } else {
            Slots {
                arg: vec!["", "1", "_0", "a", "a\u{663}", "a\u{b7}b", "e\u{301}"],
                ws_before_colon: vec!["", " ", "\u{a0}"],
                fill_align: vec!["", ">", "*<", "é^"],
                sign: vec!["", "+"],
                alt: vec!["", "#"],
                zero: vec!["", "0"],
                width: vec!["", "5", "1$", "0$"],
                prec: vec!["", ".3", ".a$", ".*"],
                ty: vec!["", "?", "x?", "x", "e", "q"],
                trailing: vec!["", " ", "\n", "\u{2028}"],
            }
        }
    }
    fn dims(&self) -> Vec<usize> {
        vec![self.arg.len(), self.ws_before_colon.len(), self.fill_align.len(), self.sign.len(), self.alt.len(), self.zero.len(), self.width.len(), self.prec.len(), self.ty.len(), self.trailing.len()]
    }
    fn total(&self) -> u64 {
        self.dims().iter().map(|d| *d as u64).product()
    }
    /// returns (string, number of non-default slots)
    fn nth(&self, mut idx: u64) -> (String, u32) {
        let dims = self.dims();
        let mut c = [0usize; 10];
        for (k, d) in dims.iter().enumerate() {
            c[k] = (idx % *d as u64) as usize;
            idx /= *d as u64;
        }
        let spec = format!("{}{}{}{}{}{}{}", self.fill_align[c[2]], self.sign[c[3]], self.alt[c[4]], self.zero[c[5]], self.width[c[6]], self.prec[c[7]], self.ty[c[8]]);
        let set = c.iter().filter(|x| **x != 0).count() as u32;
        let colon = if spec.is_empty() && c[1] == 0 { "" } else { ":" };
        (format!("{{{}{}{}{}{}}}", self.arg[c[0]], self.ws_before_colon[c[1]], colon, spec, self.trailing[c[9]]), set)
    }
}

const PIECES: &[&str] = &[
    "t", " ", "{{", "}}", "é", "{}", "{:?}", "{:x}", "{:>4}", "{0}", "{1}", "{2}", "{0:?}", "{1:x}", "{_0}", "{_1:?}", "{a}", "{a:e}", "{:.*}", "{0:.*}",
    "{a:.*}", "{:1$}", "{:a$}", "{:.1$}", "{:.0$?}", "{0:1$.2$}", "{:5.3}", "{:#x?}", "{:+}", "{:08.2}", "{_a}", "{:.*?}", "{:1$.*}", "{:}", "{0:}", "{3}",
    "{ }", "{_0 }", "{:? }", "{:*^9b}",
];

fn arg<'a>(args: &'a [String], name: &str) -> Option<&'a str> {
    args.iter().position(|a| a == name).and_then(|i| args.get(i + 1)).map(|s| s.as_str())
}

pub fn main(args: &[String]) -> i32 {
    if args.first().map(|s| s.as_str()) == Some("one") {
        let s = &args[1];
        println!("std: {:?}", reference(s));
        println!("derive_more: {:?}", subject(s));
        return 0;
    }
    let thorough = arg(args, "--tier") == Some("thorough");
    let mut parts = serde_json::Map::new();
    let mut total = Acc::default();

    // ---- part 1: all short strings over SIGMA
    let l1: u32 = if thorough { 5 } else { 4 };
    let n1 = count_strings(l1, SIGMA.len() as u64);
    let lprobe = count_strings(if thorough { 4 } else { 3 }, SIGMA.len() as u64);
    let lsilent = count_strings(if thorough { 3 } else { 2 }, SIGMA.len() as u64);
    let chunk = 1u64 << 13;
    let a1 = (0..(n1 + chunk - 1) / chunk)
        .into_par_iter()
        .map(|c| {
            let mut acc = Acc::default();
            for idx in c * chunk..((c + 1) * chunk).min(n1) {
                let s = nth_string(idx, SIGMA);
                let r = reference(&s);
                with_lone_dot_class(idx, &s, &mut acc, &|idx, s, acc| {
                    let (r, _) = compare_direct(idx, s, acc);
                    if idx < lprobe {
                        probe_struct(idx, s, &r, acc);
                    }
                });
                if idx < lsilent || (idx < lprobe && s.starts_with('{')) {
                    if let Err(e) = &r {
                        never_silent(idx, &s, e, &mut acc);
                    }
                }
                if idx % 200_003 == 0 {
                    acc.samples.push(format!("{s:?} -> std {:?}", r.as_ref().map(|v| v.len()).map_err(|e| e.clone())));
                }
            }
            acc
        })
        .reduce(Acc::default, Acc::merge);
    parts.insert("1_short_strings".into(), serde_json::json!({"alphabet": SIGMA, "max_len": l1, "strings": n1, "probed_through_expansion_up_to_len": if thorough {4} else {3}, "checks": a1.checks}));
    total = total.merge(a1);

    // ---- part 1b: all `{`w`}` single-placeholder bodies
    let lb: u32 = if thorough { 5 } else { 4 };
    let nb = count_strings(lb, SIGMA.len() as u64);
    let a1b = (0..(nb + chunk - 1) / chunk)
        .into_par_iter()
        .map(|c| {
            let mut acc = Acc::default();
            for idx in c * chunk..((c + 1) * chunk).min(nb) {
                let s = format!("{{{}}}", nth_string(idx, SIGMA));
                with_lone_dot_class(idx, &s, &mut acc, &|idx, s, acc| {
                    let (r, _) = compare_direct(idx, s, acc);
                    if idx < lprobe {
                        probe_struct(idx, s, &r, acc);
                    }
                });
            }
            acc
        })
        .reduce(Acc::default, Acc::merge);
    parts.insert("1b_single_placeholder_bodies".into(), serde_json::json!({"max_body_len": lb, "strings": nb, "checks": a1b.checks}));
    total = total.merge(a1b);

    // ---- part 2: grammar derivations
    let slots = Slots::new(thorough);
    let n2 = slots.total();
    let a2 = (0..(n2 + chunk - 1) / chunk)
        .into_par_iter()
        .map(|c| {
            let mut acc = Acc::default();
            for idx in c * chunk..((c + 1) * chunk).min(n2) {
                let (s, set) = slots.nth(idx);
                let r = reference(&s);
                with_lone_dot_class(idx, &s, &mut acc, &|idx, s, acc| {
                    let (r, _) = compare_direct(idx, s, acc);
                    probe_struct(idx, s, &r, acc);
                });
                if let Err(e) = &r {
                    if set <= 3 {
                        never_silent(idx, &s, e, &mut acc);
                    }
                }
                if idx % 100_003 == 0 {
                    acc.samples.push(format!("{s:?}"));
                }
            }
            acc
        })
        .reduce(Acc::default, Acc::merge);
    parts.insert("2_grammar_derivations".into(), serde_json::json!({"slot_alphabet_sizes": slots.dims(), "derivations": n2, "checks": a2.checks}));
    total = total.merge(a2);

    // ---- part 3: one-edit neighbours of the derivations setting at most `k` slots
    let kmax = if thorough { 3 } else { 1 };
    let bases: Vec<String> = (0..n2).filter_map(|i| { let (s, set) = slots.nth(i); (set <= kmax).then_some(s) }).collect();
    let sig: Vec<char> = SIGMA.iter().map(|s| s.chars().next().unwrap()).collect();
    let a3 = bases
        .par_iter()
        .enumerate()
        .map(|(bi, b)| {
            let mut acc = Acc::default();
            let cs: Vec<char> = b.chars().collect();
            let idx = bi as u64;
            let mut seen = BTreeSet::new();
            for pos in 0..=cs.len() {
                // insert
                for c in &sig {
                    let mut v = cs.clone();
                    v.insert(pos, *c);
                    seen.insert(v.into_iter().collect::<String>());
                }
                if pos < cs.len() {
                    let mut v = cs.clone();
                    v.remove(pos);
                    seen.insert(v.into_iter().collect::<String>());
                    for c in &sig {
                        let mut v = cs.clone();
                        v[pos] = *c;
                        seen.insert(v.into_iter().collect::<String>());
                    }
                }
            }
            for s in seen {
                with_lone_dot_class(idx, &s, &mut acc, &|idx, s, acc| {
                    let (r, _) = compare_direct(idx, s, acc);
                    if bi % 7 == 0 {
                        probe_struct(idx, s, &r, acc);
                    }
                });
            }
            acc
        })
        .reduce(Acc::default, Acc::merge);
    parts.insert("3_one_edit_neighbours".into(), serde_json::json!({"base_derivations": bases.len(), "max_slots_set": kmax, "strings": a3.n, "checks": a3.checks}));
    total = total.merge(a3);

    // ---- part 4: sequences of pieces (implicit counter)
    let l4 = 3;
    let mut seqs: Vec<Vec<usize>> = Vec::new();
    for a in 0..PIECES.len() {
        seqs.push(vec![a]);
        for b in 0..PIECES.len() {
            seqs.push(vec![a, b]);
            if thorough || a % 2 == 0 {
                for c in 0..PIECES.len() {
                    seqs.push(vec![a, b, c]);
                }
            }
        }
    }
    let a4 = seqs
        .par_iter()
        .enumerate()
        .map(|(i, sq)| {
            let mut acc = Acc::default();
            let s: String = sq.iter().map(|k| PIECES[*k]).collect();
            with_lone_dot_class(i as u64, &s, &mut acc, &|idx, s, acc| {
                let (r, _) = compare_direct(idx, s, acc);
                probe_struct(idx, s, &r, acc);
            });
            acc
        })
        .reduce(Acc::default, Acc::merge);
    parts.insert("4_piece_sequences".into(), serde_json::json!({"pieces": PIECES.len(), "max_len": l4, "sequences": seqs.len(), "checks": a4.checks}));
    total = total.merge(a4);

    let vio: Vec<serde_json::Value> = total.vio.iter().map(|(sig, (i, w, d, c))| serde_json::json!({"signature": sig, "index": i, "witness": w, "detail": d, "count": c})).collect();
    println!("{}", serde_json::json!({"strings": total.n, "checks": total.checks, "outcomes": total.outcomes, "violations": vio, "samples": total.samples, "parts": parts}));
    0
}
