//! `cover <file.rs>...`: a diagnostic aid, not a check.  Re-expands in-process every `#[derive(derive_more::X)]` found in
//! the generated seam-B programs, so that an instrumented build of this engine sees the same derive inputs rustc saw
//! (tools/coverage.sh uses it to list the lines of /repo/impl/src that no check reaches).
use crate::*;
use quote::ToTokens;

fn derive_names(attrs: &[syn::Attribute]) -> Vec<String> {
    let mut out = Vec::new();
    for a in attrs {
        if !a.path().is_ident("derive") {
            continue;
        }
        let _ = a.parse_nested_meta(|m| {
            let segs: Vec<String> = m.path.segments.iter().map(|s| s.ident.to_string()).collect();
            if segs.len() >= 2 && segs[0] == "derive_more" {
                out.push(segs.last().unwrap().clone());
            }
            Ok(())
        });
    }
    out
}

fn visit(items: &[syn::Item], n: &mut [usize; 4], dump: bool) {
    for it in items {
        let (attrs, tokens) = match it {
            syn::Item::Struct(s) => (&s.attrs, {
                let mut c = s.clone();
                c.attrs.retain(|a| !a.path().is_ident("derive"));
                c.to_token_stream()
            }),
            syn::Item::Enum(s) => (&s.attrs, {
                let mut c = s.clone();
                c.attrs.retain(|a| !a.path().is_ident("derive"));
                c.to_token_stream()
            }),
            syn::Item::Union(s) => (&s.attrs, {
                let mut c = s.clone();
                c.attrs.retain(|a| !a.path().is_ident("derive"));
                c.to_token_stream()
            }),
            syn::Item::Mod(m) => {
                if let Some((_, inner)) = &m.content {
                    visit(inner, n, dump);
                }
                continue;
            }
            _ => continue,
        };
        let names = derive_names(attrs);
        if names.is_empty() {
            continue;
        }
        let Ok(ast) = syn::parse2::<syn::DeriveInput>(tokens) else { continue };
        for name in names {
            if dump {
                println!("{}", serde_json::json!({"derive": name, "item": ast.to_token_stream().to_string()}));
                continue;
            }
            if let Some(d) = find_derive(&name) {
                match expand_ast(d, &ast) {
                    Outcome::Ok(_) => n[0] += 1,
                    Outcome::Err(_) => n[1] += 1,
                    Outcome::Panic { .. } => n[2] += 1,
                    Outcome::ParseFail(_) => n[3] += 1,
                }
            }
        }
    }
}

pub fn main(args: &[String]) -> i32 {
    let mut n = [0usize; 4];
    let dump = args.iter().any(|a| a == "--dump");
    for path in args.iter().filter(|a| *a != "--dump") {
        let Ok(text) = std::fs::read_to_string(path) else { continue };
        // function bodies may hold items too (C02 puts types inside modules only), modules are enough here
        match syn::parse_file(&text) {
            Ok(f) => visit(&f.items, &mut n, dump),
            Err(e) => eprintln!("cover: {path}: {e}"),
        }
    }
    if !dump {
        println!("{}", serde_json::json!({"ok": n[0], "err": n[1], "panic": n[2], "parsefail": n[3]}));
    }
    0
}
