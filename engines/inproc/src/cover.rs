//! `cover <file.rs>...`: a diagnostic aid, not a check.  Re-expands in-process every `#[derive(derive_more::X)]` found in
//! the generated seam-B programs, so that an instrumented build of this engine sees the same derive inputs rustc saw
//! (tools/coverage.sh uses it to list the lines of /repo/impl/src that no check reaches).
use crate::*;
use quote::ToTokens;

thread_local! { static BARE: std::cell::Cell<bool> = const { std::cell::Cell::new(false) }; }

fn derive_names(attrs: &[syn::Attribute]) -> Vec<String> {
    let bare = BARE.with(|b| b.get());
    let mut out = Vec::new();
    for a in attrs {
        if !a.path().is_ident("derive") {
            continue;
        }
        let _ = a.parse_nested_meta(|m| {
            let segs: Vec<String> = m.path.segments.iter().map(|s| s.ident.to_string()).collect();
            if segs.len() >= 2 && segs[0] == "derive_more" {
                out.push(segs.last().unwrap().clone());
            } else if bare && segs.len() == 1 && find_derive(&segs[0]).is_some() {
                // `use derive_more::Display; #[derive(Display)]` (the repository's own tests and documentation)
                out.push(segs[0].clone());
            }
            Ok(())
        });
    }
    out
}

fn visit(items: &[syn::Item], n: &mut [usize; 4], dump: bool) {
    for it in items {
        let (attrs, tokens) = match it {
            syn::Item::Struct(s) => (&s.attrs, {
                let mut c = s.clone();
                c.attrs.retain(|a| !a.path().is_ident("derive"));
                c.to_token_stream()
            }),
            syn::Item::Enum(s) => (&s.attrs, {
                let mut c = s.clone();
                c.attrs.retain(|a| !a.path().is_ident("derive"));
                c.to_token_stream()
            }),
            syn::Item::Union(s) => (&s.attrs, {
                let mut c = s.clone();
                c.attrs.retain(|a| !a.path().is_ident("derive"));
                c.to_token_stream()
            }),
            syn::Item::Mod(m) => {
                if let Some((_, inner)) = &m.content {
                    visit(inner, n, dump);
                }
                continue;
            }
            syn::Item::Fn(f) => {
                visit_block(&f.block, n, dump);
                continue;
            }
            _ => continue,
        };
        let names = derive_names(attrs);
        if names.is_empty() {
            continue;
        }
        let Ok(ast) = syn::parse2::<syn::DeriveInput>(tokens) else { continue };
        for name in names {
            if dump {
                println!("{}", serde_json::json!({"derive": name, "item": ast.to_token_stream().to_string()}));
                continue;
            }
            if let Some(d) = find_derive(&name) {
                match expand_ast(d, &ast) {
                    Outcome::Ok(_) => n[0] += 1,
                    Outcome::Err(_) => n[1] += 1,
                    Outcome::Panic { .. } => n[2] += 1,
                    Outcome::ParseFail(_) => n[3] += 1,
                }
            }
        }
    }
}

/// Items declared inside function bodies (the usual place in tests and documentation examples), at any block depth.
fn visit_block(b: &syn::Block, n: &mut [usize; 4], dump: bool) {
    let items: Vec<syn::Item> = b.stmts.iter().filter_map(|s| if let syn::Stmt::Item(i) = s { Some(i.clone()) } else { None }).collect();
    visit(&items, n, dump);
    for s in &b.stmts {
        if let syn::Stmt::Expr(syn::Expr::Block(eb), _) = s {
            visit_block(&eb.block, n, dump);
        }
    }
}

pub fn main(args: &[String]) -> i32 {
    let mut n = [0usize; 4];
    let dump = args.iter().any(|a| a == "--dump");
    BARE.with(|b| b.set(args.iter().any(|a| a == "--bare")));
    for path in args.iter().filter(|a| *a != "--dump" && *a != "--bare") {
        let Ok(text) = std::fs::read_to_string(path) else { continue };
        // function bodies may hold items too (C02 puts types inside modules only), modules are enough here
        match syn::parse_file(&text) {
            Ok(f) => visit(&f.items, &mut n, dump),
            Err(e) => eprintln!("cover: {path}: {e}"),
        }
    }
    if !dump {
        println!("{}", serde_json::json!({"ok": n[0], "err": n[1], "panic": n[2], "parsefail": n[3]}));
    }
    0
}
