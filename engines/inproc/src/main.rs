//! In-process seam onto the working tree of derive_more-impl (DESIGN.md §1.2, seam A).
#![allow(dead_code, unused_imports, unused_variables, unused_mut, clippy::all)]
#![cfg_attr(feature = "rustc_ref", feature(rustc_private))]

#[cfg(feature = "rustc_ref")]
extern crate rustc_driver;
#[cfg(feature = "rustc_ref")]
extern crate rustc_parse_format;

use std::cell::RefCell;
use std::panic::{catch_unwind, AssertUnwindSafe};

pub struct Derive {
    pub name: &'static str,
    pub feature: &'static str,
    pub module: &'static str,
    pub attrs: &'static [&'static str],
    pub expand: fn(&syn::DeriveInput) -> Result<proc_macro2::TokenStream, syn::Error>,
}

trait Out {
    fn norm(self) -> Result<proc_macro2::TokenStream, syn::Error>;
}
impl Out for proc_macro2::TokenStream {
    fn norm(self) -> Result<proc_macro2::TokenStream, syn::Error> {
        Ok(self)
    }
}
impl Out for Result<proc_macro2::TokenStream, syn::Error> {
    fn norm(self) -> Result<proc_macro2::TokenStream, syn::Error> {
        self
    }
}

include!(concat!(env!("OUT_DIR"), "/mounts.rs"));


mod c16;
mod c18;
mod c19;
mod cover;
mod fp;
mod svc;
#[cfg(feature = "rustc_ref")]
mod c03;

thread_local! {
    pub static LAST_PANIC: RefCell<Option<(String, String)>> = RefCell::new(None);
}

pub fn install_panic_hook() {
    std::panic::set_hook(Box::new(|info| {
        let loc = info
            .location()
            .map(|l| format!("{}:{}:{}", l.file(), l.line(), l.column()))
            .unwrap_or_default();
        let msg = if let Some(s) = info.payload().downcast_ref::<&str>() {
            s.to_string()
        } else if let Some(s) = info.payload().downcast_ref::<String>() {
            s.clone()
        } else {
            "<non-string payload>".to_string()
        };
        LAST_PANIC.with(|c| *c.borrow_mut() = Some((msg, loc)));
    }));
}

#[derive(Debug, Clone, PartialEq, Eq)]
pub enum Outcome {
    Ok(String),
    Err(String),
    Panic { msg: String, loc: String },
    ParseFail(String),
}

impl Outcome {
    pub fn kind(&self) -> &'static str {
        match self {
            Outcome::Ok(_) => "ok",
            Outcome::Err(_) => "err",
            Outcome::Panic { .. } => "panic",
            Outcome::ParseFail(_) => "parsefail",
        }
    }
}

pub fn find_derive(name: &str) -> Option<&'static Derive> {
    DERIVES.iter().find(|d| d.name == name)
}

pub fn expand_ast(d: &Derive, ast: &syn::DeriveInput) -> Outcome {
    LAST_PANIC.with(|c| *c.borrow_mut() = None);
    match catch_unwind(AssertUnwindSafe(|| (d.expand)(ast).map(|t| t.to_string()))) {
        Ok(Ok(ts)) => Outcome::Ok(ts),
        Ok(Err(e)) => Outcome::Err(e.to_string()),
        Err(_) => {
            let (msg, loc) = LAST_PANIC
                .with(|c| c.borrow_mut().take())
                .unwrap_or_else(|| ("<unknown>".into(), String::new()));
            Outcome::Panic { msg, loc }
        }
    }
}

pub fn expand_str(d: &Derive, item: &str) -> Outcome {
    let parsed = catch_unwind(AssertUnwindSafe(|| syn::parse_str::<syn::DeriveInput>(item)));
    match parsed {
        Ok(Ok(ast)) => expand_ast(d, &ast),
        Ok(Err(e)) => Outcome::ParseFail(e.to_string()),
        Err(_) => Outcome::ParseFail("panic while parsing item".into()),
    }
}

/// Classifies a panic location: `deliberate` iff it is a `panic!`/`assert!`/`panic_one_field`
/// site inside the subject's sources that carries a message; everything else is internal.
pub fn classify_panic(loc: &str) -> &'static str {
    let mut it = loc.rsplitn(3, ':');
    let _col = it.next();
    let line = it.next().and_then(|l| l.parse::<usize>().ok());
    let file = it.next().unwrap_or("");
    let Some(line) = line else { return "internal" };
    if !file.starts_with(REPO_SRC) {
        return "internal";
    }
    let Ok(text) = std::fs::read_to_string(file) else { return "internal" };
    let lines: Vec<&str> = text.lines().collect();
    if line == 0 || line > lines.len() {
        return "internal";
    }
    // look at the reported line and (for multi-line macro invocations) the two before it
    let lo = line.saturating_sub(3);
    let window = lines[lo..line].join("\n");
    let this = lines[line - 1];
    let deliberate_here = this.contains("panic!(") || this.contains("assert!(") || this.contains("panic_one_field(");
    let internal_here = this.contains("unreachable!(")
        || this.contains("unimplemented!(")
        || this.contains(".unwrap()")
        || this.contains(".expect(")
        || this.contains("todo!(");
    if deliberate_here && !internal_here {
        "deliberate"
    } else if !internal_here
        && (window.contains("panic!(") || window.contains("assert!("))
        && !window.contains("unreachable!(")
    {
        "deliberate"
    } else {
        "internal"
    }
}

fn main() {
    install_panic_hook();
    let args: Vec<String> = std::env::args().collect();
    let cmd = args.get(1).map(|s| s.as_str()).unwrap_or("");
    let rest = &args[2.min(args.len())..];
    let code = match cmd {
        "svc" => svc::main(rest),
        "derives" => {
            for d in DERIVES {
                println!(
                    "{}",
                    serde_json::json!({"name": d.name, "feature": d.feature, "module": d.module, "attrs": d.attrs})
                );
            }
            0
        }
        "c16" => c16::main(rest),
        "c18" => c18::main(rest),
        "c19" => c19::main(rest),
        "cover" => cover::main(rest),
        "fp" => fp::main(rest),
        #[cfg(feature = "rustc_ref")]
        "c03" => c03::main(rest),
        _ => {
            eprintln!("usage: inproc svc|derives|c16|c18|c19|c03 ...");
            2
        }
    };
    std::process::exit(code);
}
