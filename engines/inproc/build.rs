// Generates the mount list (`#[path]` module declarations onto the working tree of the subject)
// and the derive table from `<repo>/impl/src/lib.rs`, so the engine follows the tree.
use std::{env, fs, path::Path};

fn main() {
    let repo = env::var("VERIF_REPO").unwrap_or_else(|_| "/repo".to_string());
    println!("cargo:rerun-if-env-changed=VERIF_REPO");
    let src = format!("{repo}/impl/src");
    let lib = format!("{src}/lib.rs");
    println!("cargo:rerun-if-changed={lib}");
    let text = fs::read_to_string(&lib).expect("read lib.rs");

    let mut out = String::new();
    // 1. module mounts
    for line in text.lines() {
        let l = line.trim();
        let l = l.strip_prefix("pub(crate) ").unwrap_or(l);
        if let Some(rest) = l.strip_prefix("mod ") {
            if let Some(name) = rest.strip_suffix(';') {
                if line.starts_with(' ') {
                    continue; // nested
                }
                let bare = name.trim_start_matches("r#");
                let f1 = format!("{src}/{bare}.rs");
                let f2 = format!("{src}/{bare}/mod.rs");
                let f = if Path::new(&f1).exists() { f1 } else { f2 };
                assert!(Path::new(&f).exists(), "module file for {name} not found");
                out.push_str(&format!("#[path = \"{f}\"]\npub(crate) mod {name};\n"));
            }
        }
    }
    // 2. derive table
    let mut table = String::from(
        "pub static DERIVES: &[Derive] = &[\n",
    );
    let mut rest = text.as_str();
    let mut n = 0;
    while let Some(pos) = rest.find("create_derive!(") {
        let after = &rest[pos + "create_derive!(".len()..];
        // skip the macro definition itself: `macro_rules! create_derive(`
        let end = after.find(");").expect("unterminated create_derive!");
        let body = &after[..end];
        rest = &after[end..];
        let parts: Vec<String> = body
            .split(',')
            .map(|s| s.split_whitespace().collect::<String>())
            .filter(|s| !s.is_empty())
            .collect();
        if parts.len() < 4 || !parts[0].starts_with('"') {
            continue;
        }
        let feature = parts[0].trim_matches('"');
        let module = &parts[1];
        let trait_ = &parts[2];
        let attrs: Vec<String> = parts[4..].iter().map(|a| format!("\"{a}\"")).collect();
        table.push_str(&format!(
            "    Derive {{ name: \"{trait_}\", feature: \"{feature}\", module: \"{module}\", attrs: &[{}], \
             expand: |ast| Out::norm({module}::expand(ast, \"{trait_}\")) }},\n",
            attrs.join(", ")
        ));
        n += 1;
    }
    table.push_str("];\n");
    assert!(n >= 40, "derive table suspiciously small: {n}");
    out.push_str(&table);
    out.push_str(&format!("pub const REPO_SRC: &str = \"{src}\";\n"));
    out.push_str(&format!(
        "/// The literal parser mounted a second time, stand-alone, so its private API is reachable.\n#[path = \"{src}/fmt/parsing.rs\"]\npub mod fmtparse;\n"
    ));
    let dest = Path::new(&env::var("OUT_DIR").unwrap()).join("mounts.rs");
    fs::write(dest, out).unwrap();
}
